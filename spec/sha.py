"""FIPS 180-4 (SHA-1, SHA-256) and RFC 1321 (MD5) compression functions written from the standards' text over an
abstract 32-bit word algebra A: A.add(list), A.xor/and_/or_(a,b), A.not_(a), A.rotl(k,a), A.shr(k,a), A.const(c).
With IntAlg it is an executable reference (self-tested against hashlib); with the term algebra it yields reference terms."""
import math
import struct

M32 = 0xffffffff


class IntAlg:
    def add(self, xs):
        return sum(xs) & M32

    def xor(self, a, b):
        return a ^ b

    def and_(self, a, b):
        return a & b

    def or_(self, a, b):
        return a | b

    def not_(self, a):
        return a ^ M32

    def rotl(self, k, a):
        k %= 32
        return ((a << k) | (a >> (32 - k))) & M32 if k else a

    def shr(self, k, a):
        return a >> k

    def const(self, c):
        return c & M32


def _primes(n):
    out, c = [], 2
    while len(out) < n:
        if all(c % p for p in out if p * p <= c):
            out.append(c)
        c += 1
    return out


def _icbrt(n):
    x = int(round(n ** (1.0 / 3)))
    while x * x * x > n:
        x -= 1
    while (x + 1) ** 3 <= n:
        x += 1
    return x


K256 = [(_icbrt(p << 96) - (_icbrt(p) << 32)) & M32 for p in _primes(64)]
K1 = [math.isqrt(x << 60) & M32 for x in (2, 3, 5, 10)]       # floor(2^30 * sqrt(x))
MD5_T = [int(abs(math.sin(i + 1)) * 4294967296) & M32 for i in range(64)]
MD5_S = [7, 12, 17, 22] * 4 + [5, 9, 14, 20] * 4 + [4, 11, 16, 23] * 4 + [6, 10, 15, 21] * 4


def sha1_compress(A, H, W16):
    """FIPS 180-4 6.1.2; W16 are the 16 big-endian message words."""
    W = list(W16)
    for t in range(16, 80):
        W.append(A.rotl(1, A.xor(A.xor(W[t - 3], W[t - 8]), A.xor(W[t - 14], W[t - 16]))))
    a, b, c, d, e = H
    for t in range(80):
        if t < 20:
            f = A.xor(A.and_(b, c), A.and_(A.not_(b), d))                       # Ch
            k = K1[0]
        elif t < 40:
            f = A.xor(A.xor(b, c), d)                                           # Parity
            k = K1[1]
        elif t < 60:
            f = A.xor(A.xor(A.and_(b, c), A.and_(b, d)), A.and_(c, d))          # Maj
            k = K1[2]
        else:
            f = A.xor(A.xor(b, c), d)
            k = K1[3]
        T = A.add([A.rotl(5, a), f, e, A.const(k), W[t]])
        e, d, c, b, a = d, c, A.rotl(30, b), a, T
    return [A.add([x, y]) for x, y in zip(H, (a, b, c, d, e))]


def sha256_compress(A, H, W16):
    """FIPS 180-4 6.2.2."""
    def S0(x): return A.xor(A.xor(A.rotl(32 - 2, x), A.rotl(32 - 13, x)), A.rotl(32 - 22, x))
    def S1(x): return A.xor(A.xor(A.rotl(32 - 6, x), A.rotl(32 - 11, x)), A.rotl(32 - 25, x))
    def s0(x): return A.xor(A.xor(A.rotl(32 - 7, x), A.rotl(32 - 18, x)), A.shr(3, x))
    def s1(x): return A.xor(A.xor(A.rotl(32 - 17, x), A.rotl(32 - 19, x)), A.shr(10, x))
    W = list(W16)
    for t in range(16, 64):
        W.append(A.add([s1(W[t - 2]), W[t - 7], s0(W[t - 15]), W[t - 16]]))
    a, b, c, d, e, f, g, h = H
    for t in range(64):
        ch = A.xor(A.and_(e, f), A.and_(A.not_(e), g))
        maj = A.xor(A.xor(A.and_(a, b), A.and_(a, c)), A.and_(b, c))
        T1 = A.add([h, S1(e), ch, A.const(K256[t]), W[t]])
        T2 = A.add([S0(a), maj])
        h, g, f, e, d, c, b, a = g, f, e, A.add([d, T1]), c, b, a, A.add([T1, T2])
    return [A.add([x, y]) for x, y in zip(H, (a, b, c, d, e, f, g, h))]


def md5_compress(A, H, X16):
    """RFC 1321 3.4; X16 are the 16 little-endian message words."""
    a, b, c, d = H
    for i in range(64):
        if i < 16:
            f = A.or_(A.and_(b, c), A.and_(A.not_(b), d))
            g = i
        elif i < 32:
            f = A.or_(A.and_(b, d), A.and_(c, A.not_(d)))
            g = (5 * i + 1) % 16
        elif i < 48:
            f = A.xor(A.xor(b, c), d)
            g = (3 * i + 5) % 16
        else:
            f = A.xor(c, A.or_(b, A.not_(d)))
            g = (7 * i) % 16
        t = A.add([a, f, X16[g], A.const(MD5_T[i])])
        a, d, c, b = d, c, b, A.add([b, A.rotl(MD5_S[i], t)])
    return [A.add([x, y]) for x, y in zip(H, (a, b, c, d))]


def selftest():
    import hashlib
    A = IntAlg()
    msg = b'abc'
    blk = msg + b'\x80' + b'\x00' * (55 - len(msg)) + struct.pack('>Q', 8 * len(msg))
    W = list(struct.unpack('>16I', blk))
    h = sha1_compress(A, [0x67452301, 0xEFCDAB89, 0x98BADCFE, 0x10325476, 0xC3D2E1F0], W)
    assert struct.pack('>5I', *h) == hashlib.sha1(msg).digest()
    h = sha256_compress(A, [0x6a09e667, 0xbb67ae85, 0x3c6ef372, 0xa54ff53a, 0x510e527f, 0x9b05688c, 0x1f83d9ab, 0x5be0cd19], W)
    assert struct.pack('>8I', *h) == hashlib.sha256(msg).digest()
    blk = msg + b'\x80' + b'\x00' * (55 - len(msg)) + struct.pack('<Q', 8 * len(msg))
    X = list(struct.unpack('<16I', blk))
    h = md5_compress(A, [0x67452301, 0xEFCDAB89, 0x98BADCFE, 0x10325476], X)
    assert struct.pack('<4I', *h) == hashlib.md5(msg).digest()
    return True


if __name__ == '__main__':
    print(selftest())
