"""FIPS-197 AES-128 written from the standard's text, over an abstract byte algebra.

`A` supplies the operations: A.xor(list), A.tab(table, x), A.const(c).  With A = python ints it is an executable
reference (checked against the FIPS-197 Appendix C vector at set-up); with A = term builders it yields the
reference terms the code's terms are compared with.  Tables are derived here, not copied from wencry."""


def gmul(a, b):
    r = 0
    for _ in range(8):
        if b & 1:
            r ^= a
        hi = a & 0x80
        a = (a << 1) & 0xff
        if hi:
            a ^= 0x1b
        b >>= 1
    return r


def _inv(a):
    if a == 0:
        return 0
    for b in range(1, 256):
        if gmul(a, b) == 1:
            return b


def _affine(x):
    r = 0
    for i in range(8):
        bit = ((x >> i) ^ (x >> ((i + 4) % 8)) ^ (x >> ((i + 5) % 8)) ^ (x >> ((i + 6) % 8)) ^ (x >> ((i + 7) % 8)) ^ (0x63 >> i)) & 1
        r |= bit << i
    return r


SBOX = tuple(_affine(_inv(x)) for x in range(256))
INV_SBOX = tuple(SBOX.index(x) for x in range(256))
MUL = {c: tuple(gmul(c, x) for x in range(256)) for c in (1, 2, 3, 9, 11, 13, 14)}
RCON = [0] + [0] * 10
_r = 1
for _i in range(1, 11):
    RCON[_i] = _r
    _r = gmul(_r, 2)
# discrete log / antilog base 3 (generator of GF(2^8)*)
ALOG = [1]
for _i in range(1, 255):
    ALOG.append(gmul(ALOG[-1], 3))
LOG = [0] * 256
for _i, _v in enumerate(ALOG):
    LOG[_v] = _i


class IntAlg:
    def xor(self, xs):
        r = 0
        for x in xs:
            r ^= x
        return r

    def tab(self, t, x):
        return t[x]

    def const(self, c):
        return c


def key_expansion(A, key):
    """key: 16 bytes -> w[0..43], each word a list of 4 bytes (FIPS-197 5.2)."""
    w = [[key[4 * i + j] for j in range(4)] for i in range(4)]
    for i in range(4, 44):
        temp = list(w[i - 1])
        if i % 4 == 0:
            temp = temp[1:] + temp[:1]                          # RotWord
            temp = [A.tab(SBOX, b) for b in temp]               # SubWord
            temp[0] = A.xor([temp[0], A.const(RCON[i // 4])])   # Rcon
        w.append([A.xor([w[i - 4][j], temp[j]]) for j in range(4)])
    return w


def add_round_key(A, s, w, rnd):
    return [[A.xor([s[r][c], w[4 * rnd + c][r]]) for c in range(4)] for r in range(4)]


def cipher(A, inp, w):
    s = [[inp[r + 4 * c] for c in range(4)] for r in range(4)]
    s = add_round_key(A, s, w, 0)
    for rnd in range(1, 11):
        s = [[A.tab(SBOX, s[r][c]) for c in range(4)] for r in range(4)]            # SubBytes
        s = [[s[r][(c + r) % 4] for c in range(4)] for r in range(4)]               # ShiftRows
        if rnd != 10:                                                                # MixColumns
            n = [[None] * 4 for _ in range(4)]
            for c in range(4):
                col = [s[r][c] for r in range(4)]
                for r in range(4):
                    coef = [2, 3, 1, 1]
                    coef = coef[-r:] + coef[:-r] if r else coef
                    n[r][c] = A.xor([A.tab(MUL[coef[k]], col[k]) if coef[k] != 1 else col[k] for k in range(4)])
            s = n
        s = add_round_key(A, s, w, rnd)
    return [s[i % 4][i // 4] for i in range(16)]


def inv_cipher(A, inp, w):
    s = [[inp[r + 4 * c] for c in range(4)] for r in range(4)]
    s = add_round_key(A, s, w, 10)
    for rnd in range(9, -1, -1):
        s = [[s[r][(c - r) % 4] for c in range(4)] for r in range(4)]               # InvShiftRows
        s = [[A.tab(INV_SBOX, s[r][c]) for c in range(4)] for r in range(4)]        # InvSubBytes
        s = add_round_key(A, s, w, rnd)
        if rnd != 0:                                                                 # InvMixColumns
            n = [[None] * 4 for _ in range(4)]
            for c in range(4):
                col = [s[r][c] for r in range(4)]
                for r in range(4):
                    coef = [14, 11, 13, 9]
                    coef = coef[-r:] + coef[:-r] if r else coef
                    n[r][c] = A.xor([A.tab(MUL[coef[k]], col[k]) for k in range(4)])
            s = n
    return [s[i % 4][i // 4] for i in range(16)]


def selftest():
    A = IntAlg()
    key = list(range(16))
    pt = [0x11 * i for i in range(16)]
    w = key_expansion(A, key)
    ct = cipher(A, pt, w)
    assert bytes(ct).hex() == '69c4e0d86a7b0430d8cdb78070b4c55a', bytes(ct).hex()
    assert inv_cipher(A, ct, w) == pt
    assert SBOX[0] == 0x63 and SBOX[0x53] == 0xed and MUL[2][0x80] == 0x1b
    return True


if __name__ == '__main__':
    print(selftest())
