// wfacts: libTooling fact extractor for the wencry static checks.
// Usage: wfacts <repo-root> <out.json> <source.cpp> -- <compile flags>
// Emits, for every declaration located under <repo-root>: records, enums,
// globals (with evaluated constant initialisers) and every function body as a
// structured, type-annotated AST with resolved callee / member / decl ids.
#include "clang/AST/ASTConsumer.h"
#include "clang/AST/ASTContext.h"
#include "clang/AST/Mangle.h"
#include "clang/AST/RecordLayout.h"
#include "clang/AST/RecursiveASTVisitor.h"
#include "clang/AST/ExprCXX.h"
#include "clang/AST/StmtCXX.h"
#include "clang/Frontend/CompilerInstance.h"
#include "clang/Frontend/FrontendAction.h"
#include "clang/Lex/Lexer.h"
#include "clang/Tooling/CompilationDatabase.h"
#include "clang/Tooling/Tooling.h"
#include "llvm/Support/JSON.h"
#include "llvm/Support/raw_ostream.h"
#include <map>
#include <set>
#include <string>

using namespace clang;
namespace json = llvm::json;

static std::string gRoot, gOut;

namespace {

class Extractor {
public:
  ASTContext &Ctx;
  SourceManager &SM;
  std::unique_ptr<MangleContext> MC;
  json::Array Functions, Records, Enums, Globals;
  std::set<std::string> SeenFn, SeenRec, SeenEnum, SeenGlob;
  std::map<const Decl *, std::string> LocalIds;
  std::string CurFn;
  unsigned LocalCounter = 0;
  bool SawGoto = false;

  Extractor(ASTContext &C)
      : Ctx(C), SM(C.getSourceManager()), MC(C.createMangleContext()) {}

  std::string fileOf(SourceLocation L) {
    if (L.isInvalid()) return "";
    L = SM.getExpansionLoc(L);
    PresumedLoc P = SM.getPresumedLoc(L);
    if (P.isInvalid()) return "";
    std::string F = P.getFilename();
    // normalise a/b/../c
    llvm::SmallString<256> S(F);
    llvm::sys::path::remove_dots(S, true);
    return std::string(S.str());
  }
  unsigned lineOf(SourceLocation L) {
    if (L.isInvalid()) return 0;
    return SM.getExpansionLineNumber(L);
  }
  bool inRepo(SourceLocation L) {
    std::string F = fileOf(L);
    return F.compare(0, gRoot.size(), gRoot) == 0 &&
           F.find("/_build/") == std::string::npos;
  }
  std::string rel(const std::string &F) {
    if (F.compare(0, gRoot.size(), gRoot) == 0) {
      std::string R = F.substr(gRoot.size());
      while (!R.empty() && R[0] == '/') R = R.substr(1);
      return R;
    }
    return F;
  }

  std::string mangle(const FunctionDecl *FD) {
    std::string S;
    llvm::raw_string_ostream OS(S);
    if (auto *CD = dyn_cast<CXXConstructorDecl>(FD))
      MC->mangleName(GlobalDecl(CD, Ctor_Complete), OS);
    else if (auto *DD = dyn_cast<CXXDestructorDecl>(FD))
      MC->mangleName(GlobalDecl(DD, Dtor_Complete), OS);
    else if (MC->shouldMangleDeclName(FD))
      MC->mangleName(GlobalDecl(FD), OS);
    else
      OS << FD->getNameAsString();
    return OS.str();
  }

  // stable, unique record name: identifier, else the typedef that names it, else enclosing name + line
  std::string recName(const RecordDecl *RD) {
    if (!RD) return "";
    if (RD->getIdentifier()) return RD->getQualifiedNameAsString();
    if (const TypedefNameDecl *TD = RD->getTypedefNameForAnonDecl())
      return TD->getQualifiedNameAsString();
    std::string Outer;
    if (auto *P = dyn_cast_or_null<RecordDecl>(RD->getDeclContext()))
      Outer = recName(P) + "::";
    return Outer + "(anon@" + std::to_string(lineOf(RD->getLocation())) + ")";
  }

  std::string typeStr(QualType T) {
    if (T.isNull()) return "";
    return T.getCanonicalType().getUnqualifiedType().getAsString(
        Ctx.getPrintingPolicy());
  }

  // type descriptor (interned: expressions carry the key, `types` the table)
  json::Object Types;
  std::string typeDesc(QualType T) {
    if (T.isNull()) return "";
    QualType C = T.getCanonicalType();
    std::string K = C.getAsString(Ctx.getPrintingPolicy());
    if (!Types.get(K)) {
      Types[K] = nullptr;  // break recursion
      Types[K] = typeDescObj(T);
    }
    return K;
  }
  json::Object typeDescObj(QualType T) {
    json::Object O;
    if (T.isNull()) return O;
    QualType C = T.getCanonicalType();
    O["s"] = typeStr(C);
    if (C.isConstQualified()) O["const"] = true;
    if (C->isReferenceType()) {
      O["k"] = "ref";
      O["to"] = typeDesc(C->getPointeeType());
      return O;
    }
    if (C->isBooleanType()) {
      O["k"] = "bool"; O["bits"] = 8; O["sg"] = false;
    } else if (C->isEnumeralType()) {
      O["k"] = "enum";
      if (!C->isDependentType() && !C->isIncompleteType()) {
        O["bits"] = (int64_t)Ctx.getTypeSize(C);
        O["sg"] = C->isSignedIntegerOrEnumerationType();
      }
      if (auto *ET = C->getAs<EnumType>())
        O["enum"] = ET->getDecl()->getQualifiedNameAsString();
    } else if (C->isIntegerType()) {
      O["k"] = "int";
      O["bits"] = (int64_t)Ctx.getTypeSize(C);
      O["sg"] = C->isSignedIntegerType();
    } else if (C->isFloatingType()) {
      O["k"] = "float";
    } else if (C->isPointerType()) {
      O["k"] = "ptr";
      QualType P = C->getPointeeType();
      O["to"] = typeDesc(P);
    } else if (auto *AT = Ctx.getAsConstantArrayType(C)) {
      O["k"] = "array";
      O["n"] = (int64_t)AT->getSize().getZExtValue();
      O["el"] = typeDesc(AT->getElementType());
    } else if (C->isArrayType()) {
      O["k"] = "array";
      O["el"] = typeDesc(Ctx.getAsArrayType(C)->getElementType());
    } else if (C->isRecordType()) {
      O["k"] = "rec";
      O["rec"] = recName(C->getAsRecordDecl());
    } else if (C->isVoidType()) {
      O["k"] = "void";
    } else {
      O["k"] = "other";
    }
    if (!C->isIncompleteType() && !C->isDependentType() && !C->isVoidType() &&
        !C->isFunctionType() && !C->isReferenceType())
      O["size"] = (int64_t)Ctx.getTypeSizeInChars(C).getQuantity();
    return O;
  }

  std::string declId(const Decl *D) {
    if (auto *FD = dyn_cast<FunctionDecl>(D)) return mangle(FD);
    if (auto *VD = dyn_cast<VarDecl>(D)) {
      if (VD->hasGlobalStorage() && !VD->isStaticLocal())
        return "G:" + VD->getQualifiedNameAsString();
    }
    if (auto *FD = dyn_cast<FieldDecl>(D))
      return "F:" + recName(FD->getParent()) + "::" + FD->getNameAsString();
    if (auto *EC = dyn_cast<EnumConstantDecl>(D))
      return "E:" + EC->getQualifiedNameAsString();
    D = D->getCanonicalDecl();
    auto It = LocalIds.find(D);
    if (It != LocalIds.end()) return It->second;
    std::string N = "L:" + CurFn + "#" + std::to_string(LocalCounter++);
    if (auto *ND = dyn_cast<NamedDecl>(D)) N += ":" + ND->getNameAsString();
    LocalIds[D] = N;
    return N;
  }

  json::Value apvalue(const APValue &V, QualType T) {
    if (V.isInt()) {
      if (V.getInt().isSigned()) return (int64_t)V.getInt().getSExtValue();
      uint64_t U = V.getInt().getZExtValue();
      return (int64_t)U;  // tables are <= 32 bit; 64-bit constants emitted below
    }
    if (V.isArray()) {
      json::Array A;
      QualType ET;
      if (auto *AT = Ctx.getAsArrayType(T)) ET = AT->getElementType();
      unsigned N = V.getArraySize(), I = V.getArrayInitializedElts();
      for (unsigned i = 0; i < N; ++i) {
        const APValue &E =
            i < I ? V.getArrayInitializedElt(i)
                  : (V.hasArrayFiller() ? V.getArrayFiller() : APValue());
        A.push_back(apvalue(E, ET));
      }
      return std::move(A);
    }
    if (V.isLValue() && V.isNullPointer()) return nullptr;
    if (V.isFloat()) return V.getFloat().convertToDouble();
    return "?";
  }

  // ---- expressions / statements -------------------------------------------
  json::Value stmt(const Stmt *S) {
    if (!S) return nullptr;
    // transparent wrappers
    if (auto *P = dyn_cast<ParenExpr>(S)) return stmt(P->getSubExpr());
    if (auto *D = dyn_cast<CXXDefaultArgExpr>(S)) {
      json::Value V = stmt(D->getExpr());
      if (auto *O = V.getAsObject()) (*O)["defarg"] = true;
      return V;
    }
    if (auto *D = dyn_cast<CXXDefaultInitExpr>(S)) return stmt(D->getExpr());
    if (auto *C = dyn_cast<ConstantExpr>(S)) return stmt(C->getSubExpr());

    json::Object O;
    O["k"] = S->getStmtClassName();
    SourceLocation L = S->getBeginLoc();
    O["l"] = (int64_t)lineOf(L);
    {
      std::string F = fileOf(L);
      if (!F.empty()) O["f"] = rel(F);
    }
    if (L.isMacroID()) {
      StringRef M = Lexer::getImmediateMacroName(L, SM, Ctx.getLangOpts());
      if (!M.empty()) O["mac"] = M.str();
    }
    if (auto *E = dyn_cast<Expr>(S)) {
      O["t"] = typeDesc(E->getType());
      if (E->isLValue()) O["lv"] = true;
      if (!E->isValueDependent() && !E->isTypeDependent() &&
          E->getType()->isIntegralOrEnumerationType() && E->isPRValue()) {
        Expr::EvalResult R;
        if (E->EvaluateAsInt(R, Ctx, Expr::SE_NoSideEffects)) {
          llvm::APSInt I = R.Val.getInt();
          if (I.isSigned()) O["cv"] = (int64_t)I.getSExtValue();
          else if (I.getActiveBits() <= 63) O["cv"] = (int64_t)I.getZExtValue();
          else O["cvs"] = llvm::toString(I, 10);
        }
      }
      if (!E->isValueDependent() && !E->isTypeDependent() && E->getType()->isRealFloatingType() && E->isPRValue()) {
        llvm::APFloat F(0.0);
        if (E->EvaluateAsFloat(F, Ctx, Expr::SE_NoSideEffects)) {
          bool lost = false;
          F.convert(llvm::APFloat::IEEEdouble(), llvm::APFloat::rmNearestTiesToEven, &lost);
          double dv = F.convertToDouble();
          if (dv == dv && dv - dv == 0.0) O["fv"] = dv;   // finite values only
        }
      }
    }

    if (auto *DR = dyn_cast<DeclRefExpr>(S)) {
      const ValueDecl *D = DR->getDecl();
      O["d"] = declId(D);
      O["n"] = D->getNameAsString();
      O["dk"] = D->getDeclKindName();
      if (auto *VD = dyn_cast<VarDecl>(D)) {
        if (VD->hasGlobalStorage()) O["glob"] = true;
        if (VD->isStaticLocal()) O["staticlocal"] = true;
      }
      if (auto *FD = dyn_cast<FunctionDecl>(D))
        O["q"] = FD->getQualifiedNameAsString();
      return std::move(O);
    }
    if (auto *ME = dyn_cast<MemberExpr>(S)) {
      const ValueDecl *D = ME->getMemberDecl();
      O["m"] = D->getNameAsString();
      O["mk"] = D->getDeclKindName();
      O["arrow"] = ME->isArrow();
      if (auto *FD = dyn_cast<FieldDecl>(D)) {
        O["rec"] = recName(FD->getParent());
        if (FD->getParent()->isUnion()) O["inunion"] = true;
        O["d"] = declId(FD);
        if (FD->getParent()->isCompleteDefinition() &&
            !FD->getParent()->isDependentType()) {
          const ASTRecordLayout &RL = Ctx.getASTRecordLayout(FD->getParent());
          O["off"] = (int64_t)(RL.getFieldOffset(FD->getFieldIndex()) / 8);
        }
        if (FD->isAnonymousStructOrUnion()) O["anon"] = true;
      } else if (auto *MD = dyn_cast<CXXMethodDecl>(D)) {
        O["rec"] = recName(MD->getParent());
        O["d"] = mangle(MD);
      } else if (auto *VD = dyn_cast<VarDecl>(D)) {
        O["d"] = declId(VD);
        O["glob"] = true;
        O["q"] = VD->getQualifiedNameAsString();
      }
      O["base"] = stmt(ME->getBase());
      return std::move(O);
    }
    if (auto *CE = dyn_cast<CallExpr>(S)) {
      json::Object Cal;
      const FunctionDecl *FD = CE->getDirectCallee();
      if (FD) {
        Cal["q"] = FD->getQualifiedNameAsString();
        Cal["m"] = mangle(FD);
        if (auto *MD = dyn_cast<CXXMethodDecl>(FD)) {
          Cal["rec"] = recName(MD->getParent());
          if (MD->isVirtual()) Cal["virt"] = true;
          if (MD->isStatic()) Cal["static"] = true;
        }
        Cal["inrepo"] = inRepo(FD->getLocation());
        if (FD->getBuiltinID()) Cal["builtin"] = true;
      }
      O["callee"] = std::move(Cal);
      if (!FD) O["fn"] = stmt(CE->getCallee());
      if (auto *MC2 = dyn_cast<CXXMemberCallExpr>(S)) {
        O["obj"] = stmt(MC2->getImplicitObjectArgument());
        if (auto *ME2 = dyn_cast<MemberExpr>(
                MC2->getCallee()->IgnoreParenImpCasts()))
          O["arrow"] = ME2->isArrow();
      }
      json::Array Args;
      for (const Expr *A : CE->arguments()) Args.push_back(stmt(A));
      O["args"] = std::move(Args);
      return std::move(O);
    }
    if (auto *CE = dyn_cast<CXXConstructExpr>(S)) {
      const CXXConstructorDecl *CD = CE->getConstructor();
      json::Object Cal;
      Cal["q"] = CD->getQualifiedNameAsString();
      Cal["m"] = mangle(CD);
      Cal["rec"] = recName(CD->getParent());
      Cal["inrepo"] = inRepo(CD->getLocation());
      if (CD->isCopyOrMoveConstructor()) Cal["copy"] = true;
      if (CD->isImplicit() || CD->isDefaulted()) Cal["implicit"] = true;
      if (CD->isTrivial()) Cal["trivial"] = true;
      O["callee"] = std::move(Cal);
      if (CE->requiresZeroInitialization()) O["zeroing"] = true;
      json::Array Args;
      for (const Expr *A : CE->arguments()) Args.push_back(stmt(A));
      O["args"] = std::move(Args);
      return std::move(O);
    }
    if (auto *NE = dyn_cast<CXXNewExpr>(S)) {
      O["at"] = typeDesc(NE->getAllocatedType());
      if (NE->isArray()) {
        O["isarr"] = true;
        if (auto Sz = NE->getArraySize()) O["arr"] = stmt(*Sz);
      }
      if (NE->getInitializer()) O["init"] = stmt(NE->getInitializer());
      // new (std::nothrow) T: yields a null pointer instead of throwing when the allocation fails
      for (unsigned i = 0; i < NE->getNumPlacementArgs(); ++i) {
        std::string PT = NE->getPlacementArg(i)->getType().getUnqualifiedType().getAsString();
        if (PT.find("nothrow_t") != std::string::npos) O["nothrow"] = true;
      }
      return std::move(O);
    }
    if (auto *DE = dyn_cast<CXXDeleteExpr>(S)) {
      O["isarr"] = DE->isArrayForm();
      O["e"] = stmt(DE->getArgument());
      return std::move(O);
    }
    if (auto *IL = dyn_cast<IntegerLiteral>(S)) {
      (void)IL;
      return std::move(O);  // cv already set
    }
    if (auto *SL = dyn_cast<StringLiteral>(S)) {
      if (SL->getCharByteWidth() == 1) O["s"] = SL->getBytes().str();
      O["len"] = (int64_t)SL->getLength();
      return std::move(O);
    }
    if (auto *UO = dyn_cast<UnaryOperator>(S)) {
      O["op"] = UnaryOperator::getOpcodeStr(UO->getOpcode()).str();
      O["postfix"] = UO->isPostfix();
      O["e"] = stmt(UO->getSubExpr());
      return std::move(O);
    }
    if (auto *BO = dyn_cast<BinaryOperator>(S)) {
      O["op"] = BO->getOpcodeStr().str();
      O["lhs"] = stmt(BO->getLHS());
      O["rhs"] = stmt(BO->getRHS());
      if (auto *CA = dyn_cast<CompoundAssignOperator>(S)) {
        O["ct"] = typeDesc(CA->getComputationResultType());
        O["clt"] = typeDesc(CA->getComputationLHSType());
      }
      return std::move(O);
    }
    if (auto *CO = dyn_cast<ConditionalOperator>(S)) {
      O["cond"] = stmt(CO->getCond());
      O["then"] = stmt(CO->getTrueExpr());
      O["else"] = stmt(CO->getFalseExpr());
      return std::move(O);
    }
    if (auto *AS = dyn_cast<ArraySubscriptExpr>(S)) {
      O["base"] = stmt(AS->getBase());
      O["idx"] = stmt(AS->getIdx());
      return std::move(O);
    }
    if (auto *CE = dyn_cast<CastExpr>(S)) {
      O["ck"] = CE->getCastKindName();
      O["e"] = stmt(CE->getSubExpr());
      return std::move(O);
    }
    if (auto *LE = dyn_cast<LambdaExpr>(S)) {
      const CXXMethodDecl *Op = LE->getCallOperator();
      O["op"] = mangle(Op);
      O["ncapt"] = (int64_t)LE->capture_size();
      O["empty"] = isa<CompoundStmt>(LE->getBody()) &&
                   cast<CompoundStmt>(LE->getBody())->body_empty();
      return std::move(O);
    }
    if (auto *UE = dyn_cast<UnaryExprOrTypeTraitExpr>(S)) {
      (void)UE;
      return std::move(O);
    }
    // ---- statements with named parts
    if (auto *CS = dyn_cast<CompoundStmt>(S)) {
      json::Array C;
      for (const Stmt *Ch : CS->body()) C.push_back(stmt(Ch));
      O["c"] = std::move(C);
      return std::move(O);
    }
    if (auto *DS = dyn_cast<DeclStmt>(S)) {
      json::Array Ds;
      for (const Decl *D : DS->decls()) {
        if (auto *VD = dyn_cast<VarDecl>(D)) {
          json::Object V;
          V["id"] = declId(VD);
          V["n"] = VD->getNameAsString();
          V["t"] = typeDesc(VD->getType());
          if (VD->isStaticLocal()) V["static"] = true;
          if (VD->hasInit()) V["init"] = stmt(VD->getInit());
          Ds.push_back(std::move(V));
        }
      }
      O["decls"] = std::move(Ds);
      return std::move(O);
    }
    if (auto *IS = dyn_cast<IfStmt>(S)) {
      if (IS->getInit()) O["init"] = stmt(IS->getInit());
      O["cond"] = stmt(IS->getCond());
      O["then"] = stmt(IS->getThen());
      if (IS->getElse()) O["else"] = stmt(IS->getElse());
      return std::move(O);
    }
    if (auto *FS = dyn_cast<ForStmt>(S)) {
      if (FS->getInit()) O["init"] = stmt(FS->getInit());
      if (FS->getCond()) O["cond"] = stmt(FS->getCond());
      if (FS->getInc()) O["inc"] = stmt(FS->getInc());
      O["body"] = stmt(FS->getBody());
      return std::move(O);
    }
    if (auto *RF = dyn_cast<CXXForRangeStmt>(S)) {
      // for (decl : range): the range expression, the loop variable (with its type) and the body; the desugared
      // begin/end machinery is not exported (the interpreter walks arrays and std::array by index)
      if (RF->getRangeInit()) O["range"] = stmt(RF->getRangeInit());
      if (const VarDecl *LV = RF->getLoopVariable()) {
        json::Object V;
        V["id"] = declId(LV);
        V["n"] = LV->getNameAsString();
        V["t"] = typeDesc(LV->getType());
        O["var"] = std::move(V);
      }
      O["body"] = stmt(RF->getBody());
      return std::move(O);
    }
    if (auto *WS = dyn_cast<WhileStmt>(S)) {
      O["cond"] = stmt(WS->getCond());
      O["body"] = stmt(WS->getBody());
      return std::move(O);
    }
    if (auto *DS2 = dyn_cast<DoStmt>(S)) {
      O["body"] = stmt(DS2->getBody());
      O["cond"] = stmt(DS2->getCond());
      return std::move(O);
    }
    if (auto *SS = dyn_cast<SwitchStmt>(S)) {
      O["cond"] = stmt(SS->getCond());
      O["body"] = stmt(SS->getBody());
      return std::move(O);
    }
    if (auto *CS2 = dyn_cast<CaseStmt>(S)) {
      O["val"] = stmt(CS2->getLHS());
      O["sub"] = stmt(CS2->getSubStmt());
      return std::move(O);
    }
    if (auto *DS3 = dyn_cast<DefaultStmt>(S)) {
      O["sub"] = stmt(DS3->getSubStmt());
      return std::move(O);
    }
    if (auto *RS = dyn_cast<ReturnStmt>(S)) {
      if (RS->getRetValue()) O["e"] = stmt(RS->getRetValue());
      return std::move(O);
    }
    if (auto *TS = dyn_cast<CXXTryStmt>(S)) {
      O["body"] = stmt(TS->getTryBlock());
      json::Array H;
      for (unsigned i = 0; i < TS->getNumHandlers(); ++i)
        H.push_back(stmt(TS->getHandler(i)->getHandlerBlock()));
      O["handlers"] = std::move(H);
      // what each handler catches: the caught type without reference/cv, or "..." for catch-all
      json::Array Cs;
      for (unsigned i = 0; i < TS->getNumHandlers(); ++i) {
        QualType QT = TS->getHandler(i)->getCaughtType();
        if (QT.isNull()) Cs.push_back("...");
        else Cs.push_back(QT.getNonReferenceType().getUnqualifiedType().getAsString());
      }
      O["catches"] = std::move(Cs);
      return std::move(O);
    }
    if (isa<GotoStmt>(S) || isa<LabelStmt>(S) || isa<IndirectGotoStmt>(S))
      SawGoto = true;
    // generic: children
    json::Array C;
    for (const Stmt *Ch : S->children()) C.push_back(stmt(Ch));
    if (!C.empty()) O["c"] = std::move(C);
    return std::move(O);
  }

  // ---- declarations ---------------------------------------------------------
  void function(const FunctionDecl *FD) {
    if (!FD->doesThisDeclarationHaveABody()) return;
    if (FD->isDependentContext()) return;
    if (!inRepo(FD->getLocation())) return;
    if (FD->isImplicit()) return;
    std::string M = mangle(FD);
    if (!SeenFn.insert(M).second) return;
    CurFn = M;
    LocalCounter = 0;
    json::Object O;
    O["id"] = M;
    O["q"] = FD->getQualifiedNameAsString();
    O["name"] = FD->getNameAsString();
    O["file"] = rel(fileOf(FD->getLocation()));
    O["line"] = (int64_t)lineOf(FD->getLocation());
    O["ret"] = typeDesc(FD->getReturnType());
    json::Array Ps;
    for (const ParmVarDecl *P : FD->parameters()) {
      json::Object PO;
      PO["id"] = declId(P);
      PO["n"] = P->getNameAsString();
      PO["t"] = typeDesc(P->getType());
      if (P->hasDefaultArg() && !P->hasUninstantiatedDefaultArg() &&
          !P->hasUnparsedDefaultArg())
        PO["def"] = stmt(P->getDefaultArg());
      Ps.push_back(std::move(PO));
    }
    O["params"] = std::move(Ps);
    if (auto *MD = dyn_cast<CXXMethodDecl>(FD)) {
      O["rec"] = recName(MD->getParent());
      if (MD->isVirtual()) O["virt"] = true;
      if (MD->isStatic()) O["static"] = true;
      if (MD->isConst()) O["constm"] = true;
      O["access"] = (int64_t)MD->getAccess();
      json::Array Ov;
      for (const CXXMethodDecl *B : MD->overridden_methods())
        Ov.push_back(mangle(B));
      if (!Ov.empty()) O["overrides"] = std::move(Ov);
      if (MD->getParent()->isLambda()) O["lambda"] = true;
    }
    if (auto *CD = dyn_cast<CXXConstructorDecl>(FD)) {
      O["ctor"] = true;
      json::Array In;
      for (const CXXCtorInitializer *I : CD->inits()) {
        json::Object IO;
        if (I->isAnyMemberInitializer()) {
          IO["field"] = I->getAnyMember()->getNameAsString();
          IO["d"] = declId(I->getAnyMember());
          IO["ft"] = typeDesc(I->getAnyMember()->getType());
        } else if (I->isBaseInitializer()) {
          IO["base"] = typeStr(QualType(I->getBaseClass(), 0));
        }
        IO["written"] = I->isWritten();
        IO["init"] = stmt(I->getInit());
        In.push_back(std::move(IO));
      }
      O["inits"] = std::move(In);
    }
    if (isa<CXXDestructorDecl>(FD)) O["dtor"] = true;
    O["body"] = stmt(FD->getBody());
    Functions.push_back(std::move(O));
  }

  void record(const CXXRecordDecl *RD) {
    if (!RD->isCompleteDefinition() || RD->isDependentContext()) return;
    if (!inRepo(RD->getLocation())) return;
    if (RD->isLambda()) return;
    std::string Q = recName(RD);
    if (!SeenRec.insert(Q).second) return;
    json::Object O;
    O["q"] = Q;
    O["file"] = rel(fileOf(RD->getLocation()));
    O["line"] = (int64_t)lineOf(RD->getLocation());
    O["union"] = RD->isUnion();
    const ASTRecordLayout &RL = Ctx.getASTRecordLayout(RD);
    O["size"] = (int64_t)RL.getSize().getQuantity();
    json::Array Bs;
    for (const CXXBaseSpecifier &B : RD->bases())
      if (auto *BD = B.getType()->getAsCXXRecordDecl()) {
        json::Object BO;
        BO["q"] = recName(BD);
        BO["off"] = (int64_t)RL.getBaseClassOffset(BD).getQuantity();
        Bs.push_back(std::move(BO));
      }
    O["bases"] = std::move(Bs);
    json::Array Fs;
    for (const FieldDecl *F : RD->fields()) {
      json::Object FO;
      FO["n"] = F->getNameAsString();
      FO["d"] = declId(F);
      FO["t"] = typeDesc(F->getType());
      FO["off"] = (int64_t)(RL.getFieldOffset(F->getFieldIndex()) / 8);
      FO["access"] = (int64_t)F->getAccess();
      if (F->isAnonymousStructOrUnion()) FO["anon"] = true;
      if (F->hasInClassInitializer() && F->getInClassInitializer())
        FO["init"] = stmt(F->getInClassInitializer());
      Fs.push_back(std::move(FO));
    }
    O["fields"] = std::move(Fs);
    json::Array Ms;
    for (const CXXMethodDecl *M : RD->methods()) {
      if (M->isImplicit()) continue;
      json::Object MO;
      MO["id"] = mangle(M);
      MO["n"] = M->getNameAsString();
      if (M->isVirtual()) MO["virt"] = true;
      if (M->isPure()) MO["pure"] = true;
      if (M->isStatic()) MO["static"] = true;
      MO["access"] = (int64_t)M->getAccess();
      json::Array Ov;
      for (const CXXMethodDecl *B : M->overridden_methods())
        Ov.push_back(mangle(B));
      if (!Ov.empty()) MO["overrides"] = std::move(Ov);
      Ms.push_back(std::move(MO));
    }
    O["methods"] = std::move(Ms);
    // special members: who may copy this object, and does it release anything
    O["udtor"] = RD->hasUserDeclaredDestructor();
    O["ucopy"] = RD->hasUserDeclaredCopyConstructor();
    O["uassign"] = RD->hasUserDeclaredCopyAssignment();
    O["umove"] = RD->hasUserDeclaredMoveConstructor() || RD->hasUserDeclaredMoveAssignment();
    Records.push_back(std::move(O));
  }

  void enumd(const EnumDecl *ED) {
    if (!ED->isCompleteDefinition() || !inRepo(ED->getLocation())) return;
    std::string Q = ED->getQualifiedNameAsString();
    if (!SeenEnum.insert(Q).second) return;
    json::Object O;
    O["q"] = Q;
    json::Object Cs;
    for (const EnumConstantDecl *C : ED->enumerators())
      Cs[C->getNameAsString()] = (int64_t)C->getInitVal().getSExtValue();
    O["consts"] = std::move(Cs);
    Enums.push_back(std::move(O));
  }

  void global(const VarDecl *VD) {
    if (!VD->hasGlobalStorage()) return;
    if (!inRepo(VD->getLocation())) return;
    if (VD->isTemplated() || VD->getDeclContext()->isDependentContext()) return;
    std::string Q = VD->isStaticLocal()
                        ? "SL:" + VD->getQualifiedNameAsString() + "@" +
                              rel(fileOf(VD->getLocation())) + ":" +
                              std::to_string(lineOf(VD->getLocation()))
                        : VD->getQualifiedNameAsString();
    bool Def = VD->isThisDeclarationADefinition() == VarDecl::Definition;
    const VarDecl *WithInit = nullptr;
    const Expr *Init = VD->getAnyInitializer(WithInit);
    std::string Key = Q + (Def || Init ? "#def" : "#decl");
    if (!SeenGlob.insert(Key).second) return;
    CurFn = "G:" + Q;
    json::Object O;
    O["q"] = Q;
    O["id"] = declId(VD);
    O["n"] = VD->getNameAsString();
    O["t"] = typeDesc(VD->getType());
    O["file"] = rel(fileOf(VD->getLocation()));
    O["line"] = (int64_t)lineOf(VD->getLocation());
    O["def"] = Def;
    O["const"] = VD->getType().isConstQualified();
    if (VD->isStaticLocal()) O["staticlocal"] = true;
    if (VD->isStaticDataMember()) O["staticmember"] = true;
    if (VD->getStorageClass() == SC_Static) O["filestatic"] = true;
    if (Init) {
      O["hasinit"] = true;
      if (!Init->isValueDependent()) {
        if (const APValue *V = WithInit->evaluateValue()) {
          if (V->isInt() || V->isArray() || V->isFloat() ||
              (V->isLValue() && V->isNullPointer()))
            O["value"] = apvalue(*V, VD->getType());
        }
      }
      O["init"] = stmt(Init);
    }
    Globals.push_back(std::move(O));
  }
};

class Visitor : public RecursiveASTVisitor<Visitor> {
public:
  Extractor &X;
  Visitor(Extractor &X) : X(X) {}
  bool shouldVisitImplicitCode() const { return false; }
  bool shouldVisitTemplateInstantiations() const { return true; }
  bool VisitFunctionDecl(FunctionDecl *FD) { X.function(FD); return true; }
  bool VisitCXXRecordDecl(CXXRecordDecl *RD) { X.record(RD); return true; }
  bool VisitEnumDecl(EnumDecl *ED) { X.enumd(ED); return true; }
  bool VisitVarDecl(VarDecl *VD) { X.global(VD); return true; }
  bool VisitLambdaExpr(LambdaExpr *LE) {
    if (LE->getCallOperator()) X.function(LE->getCallOperator());
    return true;
  }
};

class Consumer : public ASTConsumer {
public:
  std::string Unit;
  Consumer(std::string U) : Unit(std::move(U)) {}
  void HandleTranslationUnit(ASTContext &Ctx) override {
    if (Ctx.getDiagnostics().hasErrorOccurred()) {
      llvm::errs() << "wfacts: parse errors in " << Unit << "\n";
    }
    Extractor X(Ctx);
    Visitor V(X);
    V.TraverseDecl(Ctx.getTranslationUnitDecl());
    json::Object Root;
    Root["unit"] = X.rel(Unit);
    Root["errors"] = Ctx.getDiagnostics().hasErrorOccurred();
    Root["goto"] = X.SawGoto;
    Root["functions"] = std::move(X.Functions);
    Root["records"] = std::move(X.Records);
    Root["enums"] = std::move(X.Enums);
    Root["globals"] = std::move(X.Globals);
    Root["types"] = std::move(X.Types);
    std::error_code EC;
    llvm::raw_fd_ostream OS(gOut, EC);
    if (EC) {
      llvm::errs() << "wfacts: cannot write " << gOut << "\n";
      return;
    }
    OS << json::Value(std::move(Root));
  }
};

class Action : public ASTFrontendAction {
public:
  std::unique_ptr<ASTConsumer> CreateASTConsumer(CompilerInstance &,
                                                 StringRef File) override {
    return std::make_unique<Consumer>(File.str());
  }
};

}  // namespace

int main(int argc, const char **argv) {
  if (argc < 5) {
    llvm::errs() << "usage: wfacts <repo-root> <out.json> <src> -- flags\n";
    return 2;
  }
  gRoot = argv[1];
  gOut = argv[2];
  std::string Src = argv[3];
  std::vector<std::string> Flags;
  int i = 4;
  if (std::string(argv[i]) == "--") ++i;
  for (; i < argc; ++i) Flags.push_back(argv[i]);
  clang::tooling::FixedCompilationDatabase DB(".", Flags);
  clang::tooling::ClangTool Tool(DB, {Src});
  int R = Tool.run(clang::tooling::newFrontendActionFactory<Action>().get());
  return R;
}
