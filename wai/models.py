"""Hand-written models of the library functions wencry uses (trusted base).

A model has the signature  model(I, st, fr, node, this, args, argnodes) -> [(state, value)]
and may return None to fall through to the default treatment.
FILE streams: a FILE* value is P(('file', root), ()); the stream position and EOF
flag of root live in st.comps[('fpos', root)] / st.comps[('feof', root)].
"""
from .values import *
from .facts import loc as nloc

VOID = ('void',)
EOFV = -1


def fileroot(v):
    if v[0] == 'p' and isinstance(v[1], tuple) and v[1][0] == 'file':
        return v[1][1]
    if v[0] == 'ptop':
        return ('unknown', v[1])
    if v[0] == 'null':
        return ('null',)
    return ('unknown', '?')


def fpos(st, root):
    return st.comps.get(('fpos', root), TOP)


def set_fpos(st, root, v):
    st.comps[('fpos', root)] = v


def nbytes(st, a, b):
    return binop('*', a, b, st.sym)


def region_of(p):
    """(obj, path-of-array, start index) for a pointer into an array, else None."""
    if p[0] != 'p' or not p[2]:
        return None
    last = p[2][-1]
    if isinstance(last, str):
        return None
    return (p[1], p[2][:-1], last)


def flat_base(I, st, p):
    """Pointer to the first byte of a (possibly multi-dimensional) array: strip trailing zero indices."""
    return p


def m_fread(I, st, fr, n, this, args, an):
    dst, sz, cnt, f = args
    root = fileroot(f)
    total = nbytes(st, sz, cnt)
    ov = getattr(I, 'fread_override', None)
    if ov is not None:
        r = ov(I, st, fr, n, dst, sz, cnt, f, root)
        if r is not None:
            return r
    lr_ = st.comps.get(('lastread', root))
    if lr_ is not None and lr_[0] in st.sym and is_int(lr_[1]) and compare('<', sym(lr_[0]), lr_[1], st.sym) is True:
        # the previous read of this stream came up short and nothing repositioned it: the stream is at its end (or in error),
        # and stays there - every further read delivers nothing
        # (no event: a read that delivers nothing has no effect a listener could log, and a loop that only repeats it must be
        # recognisable as coming back to the same state)
        st.comps[('feof', root)] = C(1)
        return [(st, C(0))]
    # the file has one length: an earlier read of this stream that is known (by now) to have come up short fixes it at
    # (its position + what it delivered), and a read at or beyond that point delivers nothing
    pos0 = fpos(st, root)
    if sz == C(1) and pos0 != TOP and is_int(pos0):
        for p_i, g_i, c_i in st.comps.get(('reads', root), ()):
            if g_i in st.sym and compare('<', sym(g_i), c_i, st.sym) is True:
                end_ = binop('+', p_i, sym(g_i), st.sym)
                if compare('>=', pos0, end_, st.sym) is True:
                    st.comps[('feof', root)] = C(1)
                    return [(st, C(0))]
    rc_ = rng(cnt, st.sym)
    if rc_:
        # the number of items read is one fixed unknown of this call: a named symbol, so that a later feof() test (set exactly
        # when the read came up short) and comparisons of the count refine one another
        I.counter += 1
        gname = '$got%d' % I.counter
        st.sym[gname] = (0, rc_[1])
        got = sym(gname)
        st.comps[('lastread', root)] = (gname, cnt)
        if sz == C(1) and pos0 != TOP and is_int(pos0) and is_int(cnt):
            st.comps[('reads', root)] = (st.comps.get(('reads', root), ()) + ((pos0, gname, cnt),))[-8:]
    else:
        got = TOP
        st.comps.pop(('lastread', root), None)
    out = []
    # the destination is overwritten with file bytes (unknown content)
    if dst[0] == 'p':
        write_region(I, st, dst, total, ('filebytes', root), n)
    I.emit('fread', st, node=n, root=root, pos=fpos(st, root), size=total, dst=dst, got=got)
    pos = fpos(st, root)
    if sz == C(1):
        set_fpos(st, root, binop('+', pos, got, st.sym) if pos != TOP else TOP)
    else:
        set_fpos(st, root, TOP)
    # EOF flag becomes set iff the read came up short
    full = compare('==', got, cnt, st.sym)
    st.comps[('feof', root)] = C(0) if full else R(0, 1)
    return [(st, got)]


def write_region(I, st, dst, total, what, node):
    """Forget the bytes [dst, dst+total): elementwise when small and concrete, else the whole array."""
    reg = region_of(dst)
    if reg is None:
        if dst[0] == 'p':
            I.havoc(st, (dst[1], dst[2]))
        return
    obj, apath, start = reg
    if total[0] == 'c' and isinstance(start, int) and total[1] <= 512:
        # elements may be wider than one byte; find element size from stored type if known
        for i in range(start, start + total[1]):
            k = (obj, apath + (i,))
            if k in st.mem or True:
                st.mem[k] = TOP
        for k in list(st.abs):
            if k[0] == obj and k[1][:len(apath)] == apath:
                st.mem[k] = TOP
    else:
        I.havoc(st, (obj, apath))


def m_fwrite(I, st, fr, n, this, args, an):
    src, sz, cnt, f = args
    root = fileroot(f)
    total = nbytes(st, sz, cnt)
    pos = fpos(st, root)
    I.emit('fwrite', st, node=n, root=root, pos=pos, size=total, src=src, fval=f)
    set_fpos(st, root, binop('+', pos, total, st.sym) if pos != TOP and total != TOP else TOP)
    # ISO C: the number of elements written; zero when size or nmemb is zero.  The count returned is the requested one (a
    # short write is not modelled), but the stream's error indicator may be set from here on: see m_ferror
    if not hasattr(I, 'written_roots'):
        I.written_roots = set()
    I.written_roots.add(root)
    out = []
    zs = compare('==', sz, C(0), st.sym) if is_int(sz) and sz != TOP else False
    zc = compare('==', cnt, C(0), st.sym) if is_int(cnt) and cnt != TOP else False
    if zs is True or zc is True:
        return [(st, C(0))]
    if zs is None:
        s0 = st.copy()
        if I.refine(s0, fr, None, None, sz, C(0), '=='):
            s0.note((nloc(n), 'fwrite of 0-byte elements'))
            out.append((s0, C(0)))
        if not I.refine(st, fr, None, None, sz, C(0), '!='):
            return out
    out.append((st, cnt))
    return out


def m_fseek(I, st, fr, n, this, args, an):
    f, off, wh = args
    root = fileroot(f)
    if wh == C(0):
        set_fpos(st, root, off)
    else:
        set_fpos(st, root, TOP)
    st.comps[('feof', root)] = C(0)
    st.comps.pop(('lastread', root), None)
    I.emit('fseek', st, node=n, root=root, off=off, whence=wh)
    return [(st, C(0))]


def m_feof(I, st, fr, n, this, args, an):
    root = fileroot(args[0])
    v = st.comps.get(('feof', root), R(0, 1))
    if v[0] == 'c':
        return [(st, v)]
    s2 = st.copy()
    st.comps[('feof', root)] = C(0)
    s2.comps[('feof', root)] = C(1)
    st.note((nloc(n), 'feof=0'))
    s2.note((nloc(n), 'feof=1'))
    out = []
    lr = st.comps.get(('lastread', root))
    for s_, val, op in ((st, C(0), '=='), (s2, C(1), '<')):
        # no read error is modelled: the indicator is set exactly when the last fread returned fewer items than asked for
        if lr is not None and lr[0] in s_.sym and not I.refine(s_, fr, None, None, sym(lr[0]), lr[1], op):
            continue
        out.append((s_, val))
    return out


def m_fgetc(I, st, fr, n, this, args, an):
    root = fileroot(args[0])
    ov = getattr(I, 'fgetc_override', None)
    if ov is not None:
        r = ov(I, st, fr, n, args[0], root)
        if r is not None:
            return r
    s2 = st.copy()
    st.comps[('feof', root)] = C(1)
    st.note((nloc(n), 'fgetc=EOF'))
    pos = fpos(s2, root)
    set_fpos(s2, root, binop('+', pos, C(1), s2.sym) if pos != TOP else TOP)
    s2.comps[('feof', root)] = C(0)
    s2.note((nloc(n), 'fgetc=byte'))
    I.emit('fread', s2, node=n, root=root, pos=pos, size=C(1), dst=None, got=C(1))
    return [(st, C(EOFV)), (s2, R(0, 255))]


def m_ungetc(I, st, fr, n, this, args, an):
    c, f = args
    root = fileroot(f)
    pos = fpos(st, root)
    set_fpos(st, root, binop('-', pos, C(1), st.sym) if pos != TOP else TOP)
    st.comps[('feof', root)] = C(0)
    I.emit('ungetc', st, node=n, root=root)
    return [(st, c)]


def m_fopen(I, st, fr, n, this, args, an):
    path, mode = args
    m = mode[1][1] if mode[0] == 'p' and isinstance(mode[1], tuple) and mode[1][0] == 'str' else '?'
    root = ('fopen', n['_id'], m)
    s2 = st.copy()
    st.note((nloc(n), 'fopen=NULL'))
    s2.note((nloc(n), 'fopen=ok'))
    set_fpos(s2, root, C(0))
    I.emit('fopen', s2, node=n, root=root, mode=m, path=path)
    return [(st, NULL), (s2, P(('file', root), ()))]


def m_open(I, st, fr, n, this, args, an):
    """POSIX open(path, flags[, mode]): a descriptor (or -1); the flags are remembered for a later fdopen"""
    fdn = '$fd%d' % n['_id']          # one name per call site: states of a loop that comes by here again can merge
    flags = args[1] if len(args) > 1 else TOP
    s_fail = st.copy()
    s_fail.note((nloc(n), 'open=-1'))
    st.sym[fdn] = (3, 1 << 20)
    st.comps[('fd', fdn)] = (args[0] if args else TOP, flags)
    return [(s_fail, C(-1)), (st, sym(fdn))]


def m_fdopen(I, st, fr, n, this, args, an):
    """fdopen(fd, mode): the stream of an already open descriptor.  "w" does NOT truncate here: the file is emptied only if
    it was opened with O_TRUNC.  Listeners see the effective fopen mode ("r+" when nothing truncates)."""
    fd, mode = args
    m = mode[1][1] if mode[0] == 'p' and isinstance(mode[1], tuple) and mode[1][0] == 'str' else '?'
    info = None
    if fd[0] == 'l' and len(fd[2]) == 1:
        info = st.comps.pop(('fd', fd[2][0][0]), None)
        st.sym.pop(fd[2][0][0], None)
    path = info[0] if info else ('ptop', 'fd-path', False)
    flags = info[1] if info else TOP
    O_TRUNC, O_ACCMODE = 0x200, 3
    eff = m
    if flags[0] == 'c':
        trunc = bool(flags[1] & O_TRUNC)
        acc = flags[1] & O_ACCMODE
        if m.startswith('w') and not trunc:
            eff = 'r+' + ('b' if 'b' in m else '') if acc != 0 else m
        elif m.startswith('r') and trunc:
            eff = 'w' + m[1:]
    root = ('fopen', n['_id'], eff)
    s2 = st.copy()
    st.note((nloc(n), 'fdopen=NULL'))
    s2.note((nloc(n), 'fdopen=ok'))
    set_fpos(s2, root, C(0))
    I.emit('fopen', s2, node=n, root=root, mode=eff, path=path)
    return [(st, NULL), (s2, P(('file', root), ()))]


def m_close(I, st, fr, n, this, args, an):
    return [(st, C(0))]


def _monotone(fn, lo_dom=None):
    """Model of a monotonically increasing real function on floating intervals; lo_dom = (x, f(x)) at the lower end of the domain."""
    import math

    def m(I, st, fr, n, this, args, an):
        v = args[0] if args else None
        if v is None or v[0] != 'f':
            return [(st, ('opaque', 'float'))]
        inf = float('inf')

        def ap(x):
            try:
                if lo_dom is not None and x <= lo_dom[0]:
                    return lo_dom[1] if x == lo_dom[0] else float('nan')
                if x == inf:
                    return inf
                if x == -inf:
                    return lo_dom[1] if lo_dom is not None else -inf
                return fn(x)
            except (ValueError, OverflowError):
                return float('nan')
        a, b = ap(v[1]), ap(v[2])
        if a != a or b != b:
            return [(st, ('f', -inf, inf))]
        return [(st, ('f', a, b))]
    return m


def _m_math():
    import math
    ninf = float('-inf')
    return {'log2': _monotone(math.log2, (0.0, ninf)), 'log': _monotone(math.log, (0.0, ninf)), 'log10': _monotone(math.log10, (0.0, ninf)),
            'sqrt': _monotone(math.sqrt, (0.0, 0.0)), 'floor': _monotone(math.floor), 'ceil': _monotone(math.ceil),
            'std::log2': _monotone(math.log2, (0.0, ninf)), 'std::log': _monotone(math.log, (0.0, ninf)), 'std::log10': _monotone(math.log10, (0.0, ninf)),
            'std::sqrt': _monotone(math.sqrt, (0.0, 0.0)), 'std::floor': _monotone(math.floor), 'std::ceil': _monotone(math.ceil)}


def m_fileno(I, st, fr, n, this, args, an):
    # the descriptor behind a stream: a value that only remembers which stream it belongs to
    root = fileroot(args[0]) if args else None
    return [(st, ('fdof', root))]


def m_ftruncate(I, st, fr, n, this, args, an):
    # sets the length of the file behind the descriptor: an effect on the file that listeners must see (it may fail)
    fd, ln = args[0], args[1] if len(args) > 1 else TOP
    root = fd[1] if isinstance(fd, tuple) and fd and fd[0] == 'fdof' else None
    I.emit('ftruncate', st, node=n, root=root, length=ln)
    s2 = st.copy()
    s2.note((nloc(n), 'ftruncate fails'))
    return [(st, C(0)), (s2, C(-1))]


def m_fclose(I, st, fr, n, this, args, an):
    root = fileroot(args[0])
    I.emit('fclose', st, node=n, root=root, fval=args[0])
    st.comps[('closed', root)] = True
    # 0, or EOF when flushing failed (the stream is gone either way): one named unknown per call site, so that only code that
    # looks at the result distinguishes the two
    nm = '$fclose%s' % n.get('_id')
    st.sym[nm] = (-1, 0)
    return [(st, sym(nm))]


def m_console(I, st, fr, n, this, args, an):
    I.emit('console', st, node=n, args=args)
    return [(st, TOP)]


def m_fprintf(I, st, fr, n, this, args, an):
    root = fileroot(args[0]) if args else ('unknown', '?')
    I.emit('fprintf', st, node=n, root=root, args=args)
    return [(st, TOP)]


def m_fflush(I, st, fr, n, this, args, an):
    return [(st, C(0))]


def m_sprintf(I, st, fr, n, this, args, an):
    dst = args[0]
    I.emit('strwrite', st, node=n, dst=dst, args=args, argnodes=an, bounded=None)
    if dst[0] == 'p':
        write_region(I, st, dst, TOP, 'sprintf', n)
    return [(st, TOP)]


def m_snprintf(I, st, fr, n, this, args, an):
    dst = args[0]
    I.emit('strwrite', st, node=n, dst=dst, args=args, argnodes=an, bounded=args[1])
    if dst[0] == 'p':
        write_region(I, st, dst, TOP, 'snprintf', n)
    return [(st, TOP)]


def m_scanf(I, st, fr, n, this, args, an):
    I.emit('scanf', st, node=n, args=args, argnodes=an)
    for v in args[1:]:
        if v[0] == 'p':
            write_region(I, st, v, TOP, 'scanf', n) if region_of(v) else I.store(st, (v[1], v[2]), TOP, node=n)
    return [(st, TOP)]


def elem_loc(obj, apath, i):
    return (obj, apath + (i,))


def m_memcpy(I, st, fr, n, this, args, an):
    dst, src, cnt = args[0], args[1], args[2]
    I.emit('memcpy', st, node=n, dst=dst, src=src, size=cnt)
    rd, rs = region_of(dst), region_of(src)
    if rd is None and dst[0] == 'p' and rs is None and src[0] == 'p':
        # whole-object copy (e.g. memcpy(temph, h, sizeof h) with both arrays decayed... handled below)
        I.copy_object(st, (src[1], src[2]), (dst[1], dst[2]))
        return [(st, dst)]
    if rd is not None and rs is not None and cnt[0] == 'c' and cnt[1] <= 1024 and isinstance(rd[2], int) and isinstance(rs[2], int):
        es = getattr(I, 'elem_size_hint', lambda p: 1)
        esz_d, esz_s = es(an[0]), es(an[1])
        if esz_d == esz_s and esz_d and cnt[1] % esz_d == 0:
            k = cnt[1] // esz_d
            vals = [I.load(st, elem_loc(rs[0], rs[1], rs[2] + i)) for i in range(k)]
            for i, v in enumerate(vals):
                st.mem[elem_loc(rd[0], rd[1], rd[2] + i)] = v
            for kk in list(st.abs):
                if kk[0] == rd[0] and kk[1][:len(rd[1])] == rd[1]:
                    st.mem[kk] = TOP
            return [(st, dst)]
    if rd is not None and rs is None and src[0] == 'p' and cnt[0] == 'c' and 1 <= cnt[1] <= 16 and isinstance(rd[2], int):
        # a scalar object copied into a byte array: its object representation (little-endian), when the value is a constant
        es = getattr(I, 'elem_size_hint', lambda p: 1)
        v = st.mem.get((src[1], src[2]))
        if (es(an[0]) or 1) == 1 and v is not None and v[0] == 'c':
            for i in range(cnt[1]):
                st.mem[elem_loc(rd[0], rd[1], rd[2] + i)] = C((v[1] >> (8 * i)) & 0xff)
            return [(st, dst)]
    if dst[0] == 'p':
        write_region(I, st, dst, cnt, 'memcpy', n)
    return [(st, dst)]


def m_memset(I, st, fr, n, this, args, an):
    dst, c, cnt = args[0], args[1], args[2]
    I.emit('memset', st, node=n, dst=dst, val=c, size=cnt)
    rd = region_of(dst)
    byte = fit(c, {'bits': 8, 'sg': False, 'k': 'int'}, st.sym) if is_int(c) else TOP
    if rd is not None and isinstance(rd[2], int):
        es = getattr(I, 'elem_size_hint', lambda p: 1)
        esz = es(an[0]) or 1
        fillv = byte if esz == 1 else (C(0) if byte == C(0) else TOP)
        if cnt[0] == 'c' and cnt[1] <= 4096 and cnt[1] % esz == 0:
            for i in range(cnt[1] // esz):
                st.mem[elem_loc(rd[0], rd[1], rd[2] + i)] = fillv
            for kk in list(st.abs):
                if kk[0] == rd[0] and kk[1][:len(rd[1])] == rd[1]:
                    st.mem[kk] = join(st.mem[kk], fillv, st.sym)
            return [(st, dst)]
        if rd[2] == 0:
            # unknown / large length starting at the array base: every element is either the
            # fill value or what it was; when the length is the allocation size it is the fill value
            count = st.mem.get((rd[0], rd[1] + ('$count',))) if not rd[1] else None
            whole = count is not None and compare('==', count, cnt, st.sym) is True and esz == 1
            if whole:
                I.havoc(st, (rd[0], rd[1]), fillv)
                st.mem[(rd[0], ('$count',))] = count
                return [(st, dst)]
    if dst[0] == 'p':
        write_region(I, st, dst, cnt, 'memset', n)
    return [(st, dst)]


def m_strlen(I, st, fr, n, this, args, an):
    p = args[0]
    if p[0] == 'p' and isinstance(p[1], tuple) and p[1][0] == 'str':
        return [(st, C(len(p[1][1])))]
    I.emit('strlen', st, node=n, arg=p)
    # the length of a given string is one fixed unknown number: a named symbol
    nm = '$strlen:' + show(p)
    hi = (1 << 31) - 1
    if len(args) > 1:
        r = rng(args[1], st.sym)
        nm = '$strnlen:%s:%s' % (show(p), show(args[1]))
        if r is not None:
            hi = min(hi, r[1])
    old = st.sym.get(nm)
    st.sym[nm] = (0, hi) if old is None else old
    return [(st, sym(nm))]


def m_ferror(I, st, fr, n, this, args, an):
    # read/write errors exist only where a rule injects them (the chunk-read partition of the pipeline analysis has a
    # "failing read" class that marks the stream); elsewhere the library calls succeed
    root = fileroot(args[0]) if args else None
    err = st.comps.get(('frem', root)) == 'err'
    w = st.comps.get(('werr', root))
    if not err and w is None and root in getattr(I, 'written_roots', ()):
        # a stream that has been written to: the device may have failed (disk full); the indicator is sticky
        s2 = st.copy()
        s2.comps[('werr', root)] = 'set'
        s2.note((nloc(n), 'write error on the stream'))
        return [(st, C(0)), (s2, C(1))]
    return [(st, C(1 if err or w == 'set' else 0))]


def m_strncpy(I, st, fr, n, this, args, an):
    # copies up to the first NUL of the source and zero-fills: which bytes arrive depends on the data
    dst = args[0]
    cnt = args[2] if len(args) > 2 else TOP
    I.emit('strwrite', st, node=n, dst=dst, args=args, argnodes=an, bounded=cnt if len(args) > 2 else None)
    if dst[0] == 'p':
        write_region(I, st, dst, cnt, 'strncpy', n)
    return [(st, dst)]


def m_cmp(I, st, fr, n, this, args, an):
    I.emit('memcmp', st, node=n, args=args)
    return [(st, R(-(1 << 31), (1 << 31) - 1))]


def m_exit(I, st, fr, n, this, args, an):
    I.emit('exit', st, node=n, code=args[0] if args else TOP)
    return []


def m_top(I, st, fr, n, this, args, an):
    return [(st, TOP)]


def m_atoi(I, st, fr, n, this, args, an):
    I.emit('atoi', st, node=n, arg=args[0])
    return [(st, R(-(1 << 31), (1 << 31) - 1))]


def m_void(I, st, fr, n, this, args, an):
    return [(st, VOID)]


# --- C++ synchronisation ------------------------------------------------------
def lockset(st):
    return st.comps.get('lockset', frozenset())


def m_lock_ctor(I, st, fr, n, this, args, an):
    if not args:
        return [(st, VOID)]
    m = args[0]
    if m[0] == 'obj':
        return [(st, VOID)]     # move construction of a lock object
    ml = (m[1], m[2]) if m[0] == 'p' else ('?', ())
    tl = (this[1], this[2])
    I.emit('lock', st, node=n, mutex=ml)
    st.mem[(tl[0], tl[1] + ('$mutex',))] = P(*ml)
    st.mem[(tl[0], tl[1] + ('$owns',))] = C(1)
    st.comps['lockset'] = lockset(st) | {ml}
    return [(st, VOID)]


# ---- std::array<T, N>: the elements live directly under the object's path (as for a C array member)
def _arr_this(this):
    if this is None:
        return None
    if this[0] == 'p':
        return (this[1], this[2])
    if this[0] == 'obj':
        return this[1]
    return None


def _arr_len(I, n):
    """element count of the std::array a member call is made on, from the object type (size / element size)"""
    on = n.get('obj') if isinstance(n, dict) else None
    if on is None and isinstance(n, dict) and n.get('args'):
        on = n['args'][0]
    t = I.T(on) if on is not None else None
    if t and t.get('k') == 'ptr':
        t = I.prog.type(t['to'])
    s_ = (t or {}).get('s', '')
    import re as _re
    m_ = _re.search(r',\s*(\d+)\s*>\s*$', s_.replace('UL', '').replace('ul', ''))
    return int(m_.group(1)) if m_ else None


def m_arr_begin(I, st, fr, n, this, args, an):
    l = _arr_this(this)
    return [(st, P(l[0], l[1] + (0,)) if l else ('ptop', 'array', False))]


def m_arr_end(I, st, fr, n, this, args, an):
    l = _arr_this(this)
    k = _arr_len(I, n)
    return [(st, P(l[0], l[1] + (k,)) if l and k is not None else ('ptop', 'array-end', False))]


def m_arr_size(I, st, fr, n, this, args, an):
    k = _arr_len(I, n)
    return [(st, C(k) if k is not None else R(0, 1 << 30))]


def m_arr_index(I, st, fr, n, this, args, an):
    l = _arr_this(this)
    if l is None or not args:
        return [(st, ('ptop', 'array-elem', False))]
    i = args[0]
    return [(st, P(l[0], l[1] + ((i[1] if i[0] == 'c' else i),)))]


def m_arr_fill(I, st, fr, n, this, args, an):
    l = _arr_this(this)
    k = _arr_len(I, n)
    if l and k is not None and args:
        for i in range(k):
            st.mem[(l[0], l[1] + (i,))] = args[0]
    return [(st, VOID)]


def m_arr_assign(I, st, fr, n, this, args, an):
    """array = array (the implicit member-wise copy assignment)"""
    l = _arr_this(this)
    src = _arr_this(args[0]) if args else None
    if l is None or src is None:
        return None
    I.copy_object(st, src, l)
    return [(st, this)]


def m_arr_rbegin(I, st, fr, n, this, args, an):
    r = m_arr_end(I, st, fr, n, this, args, an)[0][1]
    return [(st, ('opaque', 'rit', r))]


def m_arr_rend(I, st, fr, n, this, args, an):
    r = m_arr_begin(I, st, fr, n, this, args, an)[0][1]
    return [(st, ('opaque', 'rit', r))]


def _rit_of(I, st, v):
    """the reverse-iterator value held by v (a value, or the location of an object holding one)"""
    if v is None:
        return None, None
    if v[0] == 'opaque' and len(v) > 2 and v[1] == 'rit':
        return v, None
    l = _arr_this(v)
    if l is not None:
        x = st.mem.get(l)
        if x is not None and x[0] == 'opaque' and len(x) > 2 and x[1] == 'rit':
            return x, l
    return None, None


def m_rit_ctor(I, st, fr, n, this, args, an):
    l = _arr_this(this)
    v, _ = _rit_of(I, st, args[0]) if args else (None, None)
    if l is not None and v is not None:
        st.mem[l] = v
        return [(st, VOID)]
    return None


def m_rit_deref(I, st, fr, n, this, args, an):
    v, _ = _rit_of(I, st, this)
    if v is None or v[2][0] != 'p':
        return None
    p = v[2]
    last = p[2][-1]
    prev = (last - 1) if isinstance(last, int) else binop('-', last, C(1), st.sym)
    return [(st, P(p[1], p[2][:-1] + (prev,)))]


def m_rit_inc(I, st, fr, n, this, args, an):
    v, l = _rit_of(I, st, this)
    if v is None or l is None or v[2][0] != 'p':
        return None
    p = v[2]
    last = p[2][-1]
    prev = (last - 1) if isinstance(last, int) else binop('-', last, C(1), st.sym)
    st.mem[l] = ('opaque', 'rit', P(p[1], p[2][:-1] + (prev,)))
    return [(st, this)]


def _rit_cmp(neg):
    def m(I, st, fr, n, this, args, an):
        a, _ = _rit_of(I, st, args[0]) if args else (None, None)
        b, _ = _rit_of(I, st, args[1]) if len(args) > 1 else (None, None)
        if a is None or b is None:
            return None
        pa, pb = a[2], b[2]
        if pa[0] == 'p' and pb[0] == 'p' and pa[1] == pb[1] and pa[2][:-1] == pb[2][:-1]:
            x, y = pa[2][-1], pb[2][-1]
            c = compare('==', C(x) if isinstance(x, int) else x, C(y) if isinstance(y, int) else y, st.sym)
            if c is not None:
                return [(st, C(int(c != neg)))]
        return [(st, R(0, 1))]
    return m


def m_copy_n(I, st, fr, n, this, args, an):
    """std::copy_n(first, count, out): element-wise copy, returns out + count"""
    src, cnt, dst = args[0], args[1], args[2]
    if src[0] == 'p' and dst[0] == 'p' and cnt[0] == 'c' and 0 <= cnt[1] <= 1024 and src[2] and dst[2] \
            and isinstance(src[2][-1], int) and isinstance(dst[2][-1], int):
        I.emit('memcpy', st, node=n, dst=dst, src=src, size=cnt)
        vals = [I.load(st, (src[1], src[2][:-1] + (src[2][-1] + i,))) for i in range(cnt[1])]
        for i, v in enumerate(vals):
            I.store(st, (dst[1], dst[2][:-1] + (dst[2][-1] + i,)), v, node=n)
        return [(st, P(dst[1], dst[2][:-1] + (dst[2][-1] + cnt[1],)))]
    return None


def m_copy(I, st, fr, n, this, args, an):
    b, e, dst = args[0], args[1], args[2]
    if b[0] == 'p' and e[0] == 'p' and b[1] == e[1] and b[2][:-1] == e[2][:-1] and isinstance(b[2][-1], int) and isinstance(e[2][-1], int):
        return m_copy_n(I, st, fr, n, this, [b, C(e[2][-1] - b[2][-1]), dst], an)
    return None


# ---- std::unique_ptr: one owned pointer in the pseudo-field $ptr
def _uptr_loc(this):
    if this is None:
        return None
    if this[0] == 'p':
        return (this[1], this[2] + ('$ptr',))
    if this[0] == 'obj':
        return (this[1][0], this[1][1] + ('$ptr',))
    return None


def m_uptr_ctor(I, st, fr, n, this, args, an):
    l = _uptr_loc(this)
    v = args[0] if args else NULL
    if v[0] in ('obj',) or (v[0] == 'p' and (v[1], v[2] + ('$ptr',)) in st.mem):
        src = _uptr_loc(v)                      # move construction
        held = st.mem.get(src, TOP)
        st.mem[src] = NULL
        v = held
    if l is not None:
        st.mem[l] = v
    return [(st, VOID)]


def m_uptr_get(I, st, fr, n, this, args, an):
    l = _uptr_loc(this)
    return [(st, st.mem.get(l, ('ptop', 'unique_ptr', True)) if l else ('ptop', 'unique_ptr', True))]


def m_uptr_release(I, st, fr, n, this, args, an):
    l = _uptr_loc(this)
    v = st.mem.get(l, ('ptop', 'unique_ptr', True)) if l else ('ptop', 'unique_ptr', True)
    if l is not None:
        st.mem[l] = NULL
    return [(st, v)]


def m_uptr_drop(I, st, fr, n, this, args, an):
    """destructor and reset(): the held object is deleted (its class destructor is not run here: parameter packs are plain data)"""
    l = _uptr_loc(this)
    v = st.mem.get(l) if l else None
    if v is not None and v != NULL:
        I.emit('delete', st, node=n, val=v, isarr=False)
    if l is not None:
        st.mem[l] = args[0] if args else NULL
    return [(st, VOID)]


def m_uptr_bool(I, st, fr, n, this, args, an):
    l = _uptr_loc(this)
    v = st.mem.get(l) if l else None
    if v is None or v[0] == 'ptop':
        return [(st, R(0, 1))]
    return [(st, C(0 if v == NULL else 1))]


def m_lock_unlock(I, st, fr, n, this, args, an):
    tl = (this[1], this[2]) if this and this[0] == 'p' else None
    if tl is None:
        return [(st, VOID)]
    m = st.mem.get((tl[0], tl[1] + ('$mutex',)))
    if m is not None and st.mem.get((tl[0], tl[1] + ('$owns',))) == C(1):
        ml = (m[1], m[2])
        I.emit('unlock', st, node=n, mutex=ml)
        st.comps['lockset'] = lockset(st) - {ml}
        st.mem[(tl[0], tl[1] + ('$owns',))] = C(0)
    return [(st, VOID)]


def m_lock_lock(I, st, fr, n, this, args, an):
    tl = (this[1], this[2]) if this and this[0] == 'p' else None
    if tl is None:
        return [(st, VOID)]
    m = st.mem.get((tl[0], tl[1] + ('$mutex',)))
    if m is not None:
        ml = (m[1], m[2])
        I.emit('lock', st, node=n, mutex=ml)
        st.comps['lockset'] = lockset(st) | {ml}
        st.mem[(tl[0], tl[1] + ('$owns',))] = C(1)
    return [(st, VOID)]


def m_mutex_lock(I, st, fr, n, this, args, an):
    ml = (this[1], this[2])
    I.emit('lock', st, node=n, mutex=ml)
    st.comps['lockset'] = lockset(st) | {ml}
    return [(st, VOID)]


def m_mutex_unlock(I, st, fr, n, this, args, an):
    ml = (this[1], this[2])
    I.emit('unlock', st, node=n, mutex=ml)
    st.comps['lockset'] = lockset(st) - {ml}
    return [(st, VOID)]


def _havoc_monitor(st, cv):
    # while blocked, other threads may change every field of the monitor object
    if cv[1]:
        parent = cv[1][:-1]
        for k in list(st.mem.keys()):
            if k[0] == cv[0] and k[1][:len(parent)] == parent and len(k[1]) > len(parent) and k[1][-1] not in ('$dyn', '$mutex', '$owns'):
                st.mem[k] = TOP


def m_cv_wait(I, st, fr, n, this, args, an):
    cv = (this[1], this[2]) if this[0] == 'p' else ('?', ())
    lk = args[0] if args else None
    mutex = None
    if lk is not None and lk[0] == 'p':
        m = st.mem.get((lk[1], lk[2] + ('$mutex',)))
        if m is not None:
            mutex = (m[1], m[2])
    I.emit('cv_wait', st, node=n, cv=cv, mutex=mutex, held=lockset(st), has_pred=len(args) > 1)
    if len(args) > 1 and args[1][0] == 'opaque' and args[1][1] == 'lambda' and args[1][2] in I.prog.functions:
        # wait(lock, pred)  ==  while (!pred()) wait(lock);   the lambda's `this` is the enclosing object
        lam = I.prog.functions[args[1][2]]
        outer_this = st.mem.get(fr.this) if fr.this is not None else None
        out = []

        def enum_cells(s):
            """cells of the monitor object that hold an unknown enumeration value: the predicate is evaluated for each
            enumerator, so that a predicate that passes the value to a helper (by copy) still tells which values let the waiter go"""
            out_ = []
            rec_ = I.prog.records.get(fr.fn.get('rec')) if fr.fn.get('rec') else None
            if rec_ is None or not cv[1]:
                return out_
            parent = cv[1][:-1]
            for fld in rec_['fields']:
                t_ = I.prog.type(fld['t'])
                if t_.get('k') == 'enum' and t_.get('enum') in I.prog.enums:
                    k_ = (cv[0], parent + (fld['d'][2:],))
                    if s.mem.get(k_, TOP) == TOP:
                        out_.append((k_, sorted(I.prog.enums[t_['enum']]['consts'].values())))
            return out_

        def pred_true(s):
            res = []
            cells = enum_cells(s)
            if len(cells) == 1 and len(cells[0][1]) <= 16:
                k_, vals_ = cells[0]
                keep = []
                for v_ in vals_:
                    s1 = s.copy()
                    s1.mem[k_] = C(v_)
                    for s2, v in I.inline(lam, s1, fr, n, outer_this, [], []):
                        tv = truth(v, s2.sym) if is_int(v) else None
                        if tv is True or tv is None:
                            keep.append(v_)
                if keep:
                    s3 = s.copy()
                    s3.mem[k_] = S(keep) if len(set(keep)) > 1 else C(keep[0])
                    res.append(s3)
                return res
            for s2, v in I.inline(lam, s, fr, n, outer_this, [], []):
                tv = truth(v, s2.sym) if is_int(v) else None
                if tv is True or tv is None:
                    res.append(s2)
            return res
        # the token cell with the values it may hold now: those for which the predicate holds pass without blocking
        rec0 = I.prog.records.get(fr.fn.get('rec')) if fr.fn.get('rec') else None
        cell0 = None
        if rec0 is not None and cv[1]:
            ecs = [f_ for f_ in rec0['fields'] if I.prog.type(f_['t']).get('k') == 'enum' and I.prog.type(f_['t']).get('enum') in I.prog.enums]
            if len(ecs) == 1:
                k0 = (cv[0], cv[1][:-1] + (ecs[0]['d'][2:],))
                cur = I.load(st, k0)
                cur = I.enum_default(cur, I.prog.type(ecs[0]['t']))
                cs = setof(cur)
                if cs is not None and len(cs) <= 16:
                    cell0 = (k0, sorted(cs))
        if cell0 is not None:
            k0, vals0 = cell0
            go, stay = [], []
            und = False
            for v_ in vals0:
                s1 = st.copy()
                s1.mem[k0] = C(v_)
                rr = I.inline(lam, s1, fr, n, outer_this, [], [])
                tvs = {truth(v, s2.sym) if is_int(v) else None for s2, v in rr}
                if tvs == {True}:
                    go.append(v_)
                elif tvs == {False}:
                    stay.append(v_)
                else:
                    und = True
            if not und:
                if go:
                    s_go = st.copy()
                    s_go.mem[k0] = S(go) if len(go) > 1 else C(go[0])
                    out.append((s_go, VOID))
                if stay:
                    blocked = st.copy()
                    _havoc_monitor(blocked, cv)
                    for s3 in pred_true(blocked):
                        out.append((s3, VOID))
                return out
        # already satisfied: no blocking; otherwise block (others may change the monitor), then the predicate holds
        for s2, v in I.inline(lam, st.copy(), fr, n, outer_this, [], []):
            tv = truth(v, s2.sym) if is_int(v) else None
            if tv is True:
                out.append((s2, VOID))
                continue
            blocked = s2
            _havoc_monitor(blocked, cv)
            for s3 in pred_true(blocked):
                out.append((s3, VOID))
        return out
    _havoc_monitor(st, cv)
    return [(st, VOID)]


def m_cv_notify_all(I, st, fr, n, this, args, an):
    cv = (this[1], this[2]) if this[0] == 'p' else ('?', ())
    I.emit('cv_notify', st, node=n, cv=cv, all=True, held=lockset(st))
    return [(st, VOID)]


def m_cv_notify_one(I, st, fr, n, this, args, an):
    cv = (this[1], this[2]) if this[0] == 'p' else ('?', ())
    I.emit('cv_notify', st, node=n, cv=cv, all=False, held=lockset(st))
    return [(st, VOID)]


def m_thread_ctor(I, st, fr, n, this, args, an):
    if args:
        # std::thread decay-copies its arguments: an lvalue scalar argument is read now
        vals = []
        for v, a in zip(args, an):
            t = I.T(a)
            if a.get('lv') and v[0] == 'p' and t and t.get('k') in ('int', 'bool', 'enum', 'ptr'):
                v = I.load(st, (v[1], v[2]), t)
            while v[0] == 'p' and isinstance(v[1], tuple) and v[1][0] == 'tmp' and (v[1], v[2]) in st.mem:
                v = st.mem[(v[1], v[2])]      # materialised temporary (e.g. the reference_wrapper of std::ref)
            vals.append(v)
        args = vals
        I.emit('spawn', st, node=n, fn=args[0], args=args[1:], argnodes=an[1:], fr=fr)
    return [(st, VOID)]


def _thr_loc(this):
    if this is not None and this[0] == 'p':
        return (this[1], this[2] + ('$joinable',))
    return None


def m_thread_join(I, st, fr, n, this, args, an):
    I.emit('join', st, node=n, this=this, fr=fr)
    l = _thr_loc(this)
    if l is not None:
        st.mem[l] = C(0)
    return [(st, VOID)]


def m_thread_assign(I, st, fr, n, this, args, an):
    I.emit('thread_assign', st, node=n, this=this, fr=fr)
    l = _thr_loc(this)
    if l is not None:
        st.mem[l] = C(1)        # the slot now holds a started thread (move-assigned from a freshly constructed one)
    return [(st, this)]


def m_thread_joinable(I, st, fr, n, this, args, an):
    # a default-constructed std::thread is not joinable; one that was assigned a started thread is, until joined
    l = _thr_loc(this)
    v = st.mem.get(l) if l is not None else None
    if v is None and l is not None and isinstance(l[1][-2] if len(l[1]) >= 2 else None, int):
        v = C(0)
    return [(st, v if v is not None else R(0, 1))]


def m_function_call(I, st, fr, n, this, args, an):
    I.emit('callback', st, node=n, this=this, args=args)
    return [(st, VOID)]


def m_ref(I, st, fr, n, this, args, an):
    return [(st, args[0] if args else TOP)]


def m_bind(I, st, fr, n, this, args, an):
    I.emit('bind', st, node=n, args=args, argnodes=an)
    return [(st, ('opaque', 'bind', n['_id']))]


def m_opaque(I, st, fr, n, this, args, an):
    t = I.T(n)
    if t and t.get('k') == 'void':
        return [(st, VOID)]
    return [(st, ('opaque', 'std'))]


def m_getopt(I, st, fr, n, this, args, an):
    I.emit('getopt', st, node=n)
    st.mem[('G:optarg', ())] = ('ptop', 'optarg', True)
    return [(st, R(-1, 255))]


def m_file_size(I, st, fr, n, this, args, an):
    return [(st, TOP)]


STD_MODELS = {
    'fread': m_fread, 'fwrite': m_fwrite, 'fseek': m_fseek, 'feof': m_feof, 'fgetc': m_fgetc, 'getc': m_fgetc,
    'ungetc': m_ungetc, 'fopen': m_fopen, 'fclose': m_fclose, 'fflush': m_fflush,
    'printf': m_console, 'puts': m_console, 'putchar': m_console, 'fprintf': m_fprintf,
    'sprintf': m_sprintf, 'snprintf': m_snprintf, 'scanf': m_scanf,
    'ferror': m_ferror, 'strnlen': m_strlen, 'strncpy': m_strncpy, 'strcpy': m_strncpy, 'strcat': m_strncpy,
    'memcmp': m_cmp, 'strcmp': m_cmp, 'strncmp': m_cmp, 'std::memcmp': m_cmp,
    'memcpy': m_memcpy, 'memmove': m_memcpy, 'memset': m_memset, 'strlen': m_strlen,
    'std::memcpy': m_memcpy, 'std::memset': m_memset, 'std::strlen': m_strlen,
    **_m_math(),
    'open': m_open, 'fdopen': m_fdopen, 'close': m_close, 'fileno': m_fileno, 'ftruncate': m_ftruncate, 'ftruncate64': m_ftruncate, 'exit': m_exit, 'std::exit': m_exit, 'abort': m_exit,
    'rand': m_top, 'srand': m_void, 'time': m_top, 'atoi': m_atoi, 'std::atoi': m_atoi,
    'getopt_long': m_getopt, 'stat': m_top,
    'std::array::data': m_arr_begin, 'std::array::begin': m_arr_begin, 'std::array::cbegin': m_arr_begin,
    'std::array::end': m_arr_end, 'std::array::cend': m_arr_end, 'std::array::size': m_arr_size,
    'std::array::operator[]': m_arr_index, 'std::array::at': m_arr_index, 'std::array::fill': m_arr_fill,
    'std::array::operator=': m_arr_assign, 'std::array::array': m_arr_assign,
    'std::array::rbegin': m_arr_rbegin, 'std::array::rend': m_arr_rend,
    'std::reverse_iterator::reverse_iterator': m_rit_ctor, 'std::reverse_iterator::operator*': m_rit_deref,
    'std::reverse_iterator::operator++': m_rit_inc, 'std::operator!=': _rit_cmp(True), 'std::operator==': _rit_cmp(False),
    'std::copy_n': m_copy_n, 'std::copy': m_copy,
    'std::unique_ptr::unique_ptr': m_uptr_ctor, 'std::unique_ptr::get': m_uptr_get, 'std::unique_ptr::operator->': m_uptr_get,
    'std::unique_ptr::release': m_uptr_release, 'std::unique_ptr::reset': m_uptr_drop, '~std::unique_ptr': m_uptr_drop,
    'std::unique_ptr::~unique_ptr': m_uptr_drop, 'std::unique_ptr::operator bool': m_uptr_bool,
    'std::unique_lock::unique_lock': m_lock_ctor, 'std::lock_guard::lock_guard': m_lock_ctor,
    'std::scoped_lock::scoped_lock': m_lock_ctor,
    'std::unique_lock::unlock': m_lock_unlock, 'std::unique_lock::lock': m_lock_lock,
    '~std::unique_lock': m_lock_unlock, '~std::lock_guard': m_lock_unlock, '~std::scoped_lock': m_lock_unlock,
    'std::mutex::lock': m_mutex_lock, 'std::mutex::unlock': m_mutex_unlock,
    'std::mutex::mutex': m_void, 'std::condition_variable::condition_variable': m_void,
    'std::condition_variable::wait': m_cv_wait,
    'std::condition_variable::notify_all': m_cv_notify_all,
    'std::condition_variable::notify_one': m_cv_notify_one,
    'std::thread::thread': m_thread_ctor, 'std::thread::join': m_thread_join, 'std::thread::operator=': m_thread_assign, 'std::thread::joinable': m_thread_joinable,
    'std::function::operator()': m_function_call, 'std::function::function': m_void,
    'std::ref': m_ref, 'std::bind': m_bind,
    'std::filesystem::file_size': m_file_size,
}
