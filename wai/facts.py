"""Facts: run the libTooling extractor over /repo's current working tree and
load the merged whole-program model (functions, records, enums, globals, types).

Nothing is cached across check invocations: every run re-extracts from the
sources as they are now.  Scratch lives under /var/tmp and is removed on exit.
"""
import atexit
import hashlib
import json
import os
import re
import shutil
import subprocess
import sys
import tempfile
import time
from concurrent.futures import ThreadPoolExecutor

VERIF = os.path.dirname(os.path.dirname(os.path.abspath(__file__)))
REPO = os.environ.get("WENCRY_REPO", "/repo")
WFACTS = os.path.join(VERIF, "build", "wfacts")


class AnalysisBroken(Exception):
    """Anchor vanished / unit does not parse / unmodelled construct: exit 2."""


def _scratch():
    base = os.environ.get("WENCRY_SCRATCH_BASE", "/var/tmp")
    d = tempfile.mkdtemp(prefix="wencry-verif.", dir=base)
    atexit.register(shutil.rmtree, d, True)
    return d


def product_units(repo=REPO):
    """Every *.cpp outside test/ and _build/, cross-checked with CMakeLists."""
    units = []
    for root, dirs, files in os.walk(repo):
        dirs[:] = [d for d in dirs if d not in (".git", "_build", "build", "test", ".vscode", ".github")]
        for f in files:
            if f.endswith(".cpp"):
                units.append(os.path.relpath(os.path.join(root, f), repo))
    units.sort()
    # cross-check against add_library / add_executable source lists
    listed = set()
    for root, dirs, files in os.walk(repo):
        dirs[:] = [d for d in dirs if d not in (".git", "_build", "build", "test")]
        if "CMakeLists.txt" in files:
            txt = open(os.path.join(root, "CMakeLists.txt"), encoding="utf-8", errors="replace").read()
            for m in re.finditer(r"add_(?:library|executable)\s*\(([^)]*)\)", txt):
                for tok in m.group(1).split():
                    if tok.endswith(".cpp"):
                        listed.add(os.path.relpath(os.path.join(root, tok), repo))
    if set(units) != listed:
        raise AnalysisBroken(
            "sources on disk and CMake source lists differ: only-on-disk=%s only-in-cmake=%s"
            % (sorted(set(units) - listed), sorted(listed - set(units))))
    return units


def compile_flags(repo, gen):
    res = subprocess.run(["clang++", "-print-resource-dir"], capture_output=True, text=True).stdout.strip()
    inc = ["kernel", "kernel/multi_aes", "kernel/multi_aes/aes", "kernel/hash", "valget", "valget/base64"]
    flags = ["-std=gnu++17", "-resource-dir", res, "-UNDEBUG", "-DOPT_ON", "-w"]
    flags += ["-I" + os.path.join(repo, i) for i in inc]
    flags += ["-I" + gen]
    if os.environ.get("WENCRY_VERIF_GUARD", "1") == "1":
        flags += ["-DWENCRY_VERIF"]
    return flags


def _gen_config(repo, gen):
    os.makedirs(gen, exist_ok=True)
    src = open(os.path.join(repo, "config.h.in"), encoding="utf-8").read()
    for k, v in (("build_time", "static"), ("PROJECT_VERSION_MAJOR", "3"), ("PROJECT_VERSION_MINOR", "7"),
                 ("PROJECT_VERSION_PATCH", "4"), ("PROJECT_VERSION", "3.7.4")):
        src = src.replace("@%s@" % k, v)
    open(os.path.join(gen, "config.h"), "w").write(src)


def extract(repo=REPO):
    if not os.path.exists(WFACTS):
        raise AnalysisBroken("extractor not built: run MANIFEST.setup_cmd (%s missing)" % WFACTS)
    scratch = _scratch()
    gen = os.path.join(scratch, "generated")
    _gen_config(repo, gen)
    units = product_units(repo)
    flags = compile_flags(repo, gen)

    def one(u):
        out = os.path.join(scratch, u.replace("/", "_") + ".json")
        p = subprocess.run([WFACTS, repo, out, os.path.join(repo, u), "--"] + flags,
                           capture_output=True, text=True)
        if p.returncode != 0 or not os.path.exists(out):
            raise AnalysisBroken("unit %s does not parse: %s" % (u, (p.stderr or p.stdout)[-2000:]))
        with open(out) as f:
            d = json.load(f)
        if d.get("errors"):
            raise AnalysisBroken("unit %s has parse errors: %s" % (u, p.stderr[-2000:]))
        return d

    with ThreadPoolExecutor(max_workers=16) as ex:
        docs = list(ex.map(one, units))
    return Program(docs, repo, units)


class Program:
    def __init__(self, docs, repo, units):
        self.repo = repo
        self.units = units
        self.functions = {}     # mangled id -> function dict
        self.records = {}
        self.enums = {}
        self.globals = {}       # qualified name -> dict (definition preferred)
        self.types = {}
        self.has_goto = False
        nid = [0]

        def number(n, fn):
            if isinstance(n, dict):
                if "k" in n:
                    nid[0] += 1
                    n["_id"] = nid[0]
                    n["_fn"] = fn
                for v in n.values():
                    number(v, fn)
            elif isinstance(n, list):
                for v in n:
                    number(v, fn)

        for d in docs:
            self.has_goto |= bool(d.get("goto"))
            self.types.update({k: v for k, v in d["types"].items() if v})
            for f in d["functions"]:
                if f["id"] not in self.functions:
                    f["unit"] = d["unit"]
                    number(f, f["id"])
                    self.functions[f["id"]] = f
            for r in d["records"]:
                self.records.setdefault(r["q"], r)
            for e in d["enums"]:
                self.enums.setdefault(e["q"], e)
            for g in d["globals"]:
                old = self.globals.get(g["q"])
                if old is None or (g.get("hasinit") and not old.get("hasinit")) or (g.get("def") and not old.get("def")):
                    if old is not None and old.get("hasinit") and not g.get("hasinit"):
                        # keep the in-class initialiser value, mark defined
                        old["def"] = old.get("def") or g.get("def")
                        if g.get("def"):
                            old["def_file"] = g["file"]
                        continue
                    number(g, "G:" + g["q"])
                    self.globals[g["q"]] = g
        self.by_q = {}
        for f in self.functions.values():
            self.by_q.setdefault(f["q"], []).append(f)
        # class hierarchy
        self.subclasses = {}
        for r in self.records.values():
            for b in r["bases"]:
                self.subclasses.setdefault(b["q"], []).append(r["q"])
        # method table: record -> name -> [ids]
        self.overriders = {}    # base method id -> set of overriding method ids (transitive)
        for r in self.records.values():
            for m in r["methods"]:
                for b in m.get("overrides", []):
                    self.overriders.setdefault(b, set()).add(m["id"])
        changed = True
        while changed:
            changed = False
            for b, s in list(self.overriders.items()):
                for m in list(s):
                    for mm in self.overriders.get(m, ()):
                        if mm not in s:
                            s.add(mm)
                            changed = True

    # --- lookup helpers ------------------------------------------------------
    def fn(self, qualname, nparams=None, param_types=None):
        c = self.by_q.get(qualname, [])
        if nparams is not None:
            c = [f for f in c if len(f["params"]) == nparams]
        if param_types is not None:
            c = [f for f in c if [p["t"] for p in f["params"]] == param_types]
        if len(c) != 1:
            raise AnalysisBroken("anchor function %s (nparams=%s) resolves to %d definitions" % (qualname, nparams, len(c)))
        return c[0]

    def fns(self, qualname):
        return list(self.by_q.get(qualname, []))

    def type(self, key):
        t = self.types.get(key)
        if t is None:
            return {"k": "other", "s": key}
        return t

    def all_bases(self, rec):
        out = []
        r = self.records.get(rec)
        if not r:
            return out
        for b in r["bases"]:
            out.append(b["q"])
            out += self.all_bases(b["q"])
        return out

    def is_subclass(self, rec, base):
        return rec == base or base in self.all_bases(rec)

    def all_subclasses(self, rec):
        out = []
        for s in self.subclasses.get(rec, []):
            out.append(s)
            out += self.all_subclasses(s)
        return out

    def resolve_virtual(self, method_id, dyn_rec):
        """Final overrider of method_id in dynamic class dyn_rec."""
        cands = {method_id} | self.overriders.get(method_id, set())
        # walk from dyn_rec up the hierarchy; first class declaring a candidate wins
        order = [dyn_rec] + self.all_bases(dyn_rec)
        for rq in order:
            r = self.records.get(rq)
            if not r:
                continue
            for m in r["methods"]:
                if m["id"] in cands:
                    return m["id"]
        return None


# --- generic AST walking ------------------------------------------------------
def walk(n):
    """Pre-order walk over all AST nodes (dicts with 'k')."""
    stack = [n]
    while stack:
        x = stack.pop()
        if isinstance(x, dict):
            if "k" in x:
                yield x
            for key, v in x.items():
                if key.startswith("_"):
                    continue
                if isinstance(v, (dict, list)):
                    stack.append(v)
        elif isinstance(x, list):
            stack.extend(reversed(x))


def strip(n):
    """Strip implicit casts / cleanups / temporaries that do not change value."""
    while isinstance(n, dict):
        k = n.get("k")
        if k in ("ImplicitCastExpr", "CStyleCastExpr", "CXXStaticCastExpr", "CXXFunctionalCastExpr",
                 "CXXReinterpretCastExpr", "CXXConstCastExpr") and "e" in n:
            n = n["e"]
        elif k in ("ExprWithCleanups", "MaterializeTemporaryExpr", "CXXBindTemporaryExpr") and n.get("c"):
            n = n["c"][0]
        else:
            break
    return n


def calls_in(n, qualname=None):
    for x in walk(n):
        if x["k"] in ("CallExpr", "CXXMemberCallExpr", "CXXOperatorCallExpr", "CXXConstructExpr",
                      "CXXTemporaryObjectExpr"):
            if qualname is None or x.get("callee", {}).get("q") == qualname:
                yield x


def loc(n):
    return "%s:%s" % (n.get("f", "?"), n.get("l", "?"))


def outermost(prog, cands):
    """Of several candidate functions for one role, the ones that no other candidate calls (a public entry that delegates to
    private helpers with the same signature shape is the entry)."""
    ids = {f['id'] for f in cands}
    called = set()
    for f in cands:
        for n in walk(f.get('body')):
            if isinstance(n, dict) and n.get('k') in ('CallExpr', 'CXXMemberCallExpr'):
                m = (n.get('callee') or {}).get('m')
                if m in ids and m != f['id']:
                    called.add(m)
    out = [f for f in cands if f['id'] not in called]
    return out or cands


def method_of(prog, rec, name):
    """The function a call of rec::name() runs when name is not overridden below: rec's own definition, else the nearest base's."""
    for q in [rec] + list(prog.all_bases(rec)):
        r = prog.records.get(q)
        for m in (r['methods'] if r else []):
            if m['n'] == name and m['id'] in prog.functions and prog.functions[m['id']].get('body') is not None:
                return prog.functions[m['id']]
    return None


def const_getters(prog, base, names):
    """{concrete subclass: {name: constant}} for parameterless getters of the subclasses of `base` (evaluated by the interpreter,
    with the constants the subclass constructor fixes in const base members)."""
    from . import interp, models
    out = {}
    for q in prog.all_subclasses(base):
        if q not in prog.records:
            continue
        for nm in names:
            f = method_of(prog, q, nm)
            if f is None:
                continue
            I = interp.Interp(prog, models=dict(models.STD_MODELS))
            I.assume_class = q
            r = I.run(f, interp.State(), this=interp.P(('ext', 'h'), ()))
            if len(r) == 1 and r[0][1][0] == 'c':
                out.setdefault(q, {})[nm] = r[0][1][1]
    return out
