"""Tier-2 interpreter: the wai interpreter with (a) byte-addressed storage for union members and reinterpreting
pointer casts and (b) the term domain of terms.py for bytes and little-endian byte vectors."""
from .interp import Interp, State, concrete_path
from .values import *
from .terms import TS, TermError, IDENT
from .wterms import WS
from .facts import loc as nloc


def is_term(v):
    return v[0] in ('tb', 'bv', 'tw')


class TermInterp(Interp):
    def __init__(self, prog, ts=None, **kw):
        Interp.__init__(self, prog, **kw)
        self.ts = ts or TS()
        self.concrete_loops = True
        self.name_intervals = False
        self.fail = []
        self.lost = []          # values given up on without failing the evaluation: they are no terms, so never equal to one
        self.ws = WS(self.ts)
        self.word_mode = False          # pack four byte leaves into a 32-bit word leaf (hash functions)
        # memcpy between a scalar and a byte array is a reinterpretation (the portable spelling of *(u32_t *)p)
        plain = self.models.get('memcpy')

        def m_memcpy_scalar(I, st, fr, n, this, args, an):
            r = I._memcpy_reinterpret(st, args, n)
            if r is not None:
                return r
            return plain(I, st, fr, n, this, args, an) if plain is not None else None
        self.models = dict(self.models)
        self.models['memcpy'] = m_memcpy_scalar

    def _memcpy_reinterpret(self, st, args, n):
        dst, src, cnt = args[0], args[1], args[2]
        if cnt[0] != 'c' or cnt[1] not in (2, 4, 8) or dst[0] != 'p' or src[0] != 'p':
            return None
        k = cnt[1]

        def scalar(p):
            return (not p[2]) or isinstance(p[2][-1], str)

        def bytes_at(p):
            return bool(p[2]) and isinstance(p[2][-1], int)
        if scalar(dst) and bytes_at(src):
            vals = [self.load(st, (src[1], src[2][:-1] + (src[2][-1] + i,))) for i in range(k)]
            ids = [self.tid(v) if v is not None and v[0] in ('tb', 'c') else None for v in vals]
            if any(i is None for i in ids):
                return None
            self.emit('memcpy', st, node=n, dst=dst, src=src, size=cnt)
            self.store(st, (dst[1], dst[2]), self.pack(tuple(ids)), node=n)
            return [(st, dst)]
        if bytes_at(dst) and scalar(src):
            v = self.load(st, (src[1], src[2]))
            if v is not None and v[0] == 'tw':
                return None
            bv = self.to_bv(v, k) if v is not None and v[0] in ('bv', 'tb', 'c') else None
            if bv is None:
                return None
            self.emit('memcpy', st, node=n, dst=dst, src=src, size=cnt)
            for i in range(k):
                self.store(st, (dst[1], dst[2][:-1] + (dst[2][-1] + i,)), self.tbv(bv[i]), node=n)
            return [(st, dst)]
        return None

    def bad(self, node, what):
        self.fail.append((what, nloc(node) if isinstance(node, dict) else str(node)))
        return TOP

    # ------------------------------------------------------------------ byte-addressed locations
    def tsize(self, tkey):
        t = self.prog.type(tkey)
        return t.get('size')

    def elem(self, tkey):
        t = self.prog.type(tkey)
        return t.get('el') if t.get('k') == 'array' else None

    def lv(self, n, st, fr):
        if n['k'] == 'MemberExpr' and n.get('mk') == 'Field':
            base = n['base']
            bt = self.T(base)
            if n.get('arrow') or (bt and bt.get('k') == 'ptr'):
                outs = [(s, self.deref(s, p, n)) for s, p in self.ev(base, st, fr)]
            else:
                outs = self.lv(base, st, fr)
            res = []
            for s, l in outs:
                if l is None:
                    res.append((s, None))
                    continue
                last = l[1][-1] if l[1] else None
                inbyte = isinstance(last, tuple) and last and last[0] == '$B'
                if inbyte:
                    res.append((s, (l[0], l[1][:-1] + (('$B', last[1] + n.get('off', 0), n['t']),))))
                elif n.get('inunion'):
                    res.append((s, (l[0], l[1] + (('$B', n.get('off', 0), n['t']),))))
                elif n.get('anon'):
                    res.append((s, l))
                else:
                    fl = (l[0], l[1] + (n['rec'] + '::' + n['m'],))
                    if (n['rec'] + '::' + n['m']) in self.ref_fields():
                        pv = s.mem.get(fl)
                        res.append((s, self.deref(s, pv, n) if pv is not None else (('ext', 'reffield:' + n['m']), ())))
                    else:
                        res.append((s, fl))
            return res
        return Interp.lv(self, n, st, fr)

    def ev_ImplicitCastExpr(self, n, st, fr):
        ck = n['ck']
        e = n['e']
        if ck == 'ArrayToPointerDecay':
            out = []
            for s, l in self.lv(e, st, fr):
                if l is None:
                    out.append((s, ('ptop', 'decay', False)))
                    continue
                last = l[1][-1] if l[1] else None
                if isinstance(last, tuple) and last and last[0] == '$B':
                    el = self.elem(last[2])
                    out.append((s, P(l[0], l[1][:-1] + (('$B', last[1], el),))))
                else:
                    out.append((s, P(l[0], l[1] + (0,))))
            return out
        if ck in ('IntegralCast', 'IntegralToBoolean', 'BooleanToSignedIntegral'):
            res = self.ev(e, st, fr)
            if any(is_term(v) for _, v in res):
                return [(s, self.tconv(v, self.T(e), self.T(n), n) if is_term(v) else (fit(v, self.T(n), s.sym) if is_int(v) else v)) for s, v in res]
            t = self.T(n)
            out = []
            for s, v in res:
                if ck == 'IntegralToBoolean':
                    tv = truth(v, s.sym)
                    out.append((s, R(0, 1) if tv is None else C(1 if tv else 0)))
                else:
                    out.append((s, fit(v, t, s.sym) if is_int(v) else (v if v[0] == 'uninit' else TOP)))
            return out
        return Interp.ev_ImplicitCastExpr(self, n, st, fr)

    ev_CStyleCastExpr = ev_ImplicitCastExpr
    ev_CXXStaticCastExpr = ev_ImplicitCastExpr
    ev_CXXFunctionalCastExpr = ev_ImplicitCastExpr
    ev_CXXReinterpretCastExpr = ev_ImplicitCastExpr

    def bitcast(self, st, v, tfrom, tto):
        if v[0] != 'p':
            return v
        pf = self.prog.type(tfrom['to']) if tfrom and tfrom.get('k') == 'ptr' else None
        pt = self.prog.type(tto['to']) if tto and tto.get('k') == 'ptr' else None
        if not pf or not pt or pt.get('k') == 'void' or pf.get('k') == 'void' or pt.get('k') == 'rec':
            return Interp.bitcast(self, st, v, tfrom, tto)
        sf, sto = pf.get('size'), pt.get('size')
        if sf == sto:
            return v
        path = v[2]
        last = path[-1] if path else None
        if isinstance(last, tuple) and last and last[0] == '$B':
            return P(v[1], path[:-1] + (('$B', last[1], tto['to']),))
        if isinstance(last, tuple) and last and last[0] == '$C':
            # cast back (e.g. to the byte type): only supported at unit boundaries
            if sto == 1 and isinstance(last[3], int):
                return P(v[1], path[:-1] + (last[1] + last[2] * last[3],))
            return ('ptop', 'recast', False)
        if isinstance(last, int) and sf == 1:
            return P(v[1], path[:-1] + (('$C', last, sto, 0),))
        return Interp.bitcast(self, st, v, tfrom, tto)

    def ptr_add(self, st, p, off, node=None):
        if p[0] == 'p' and p[2] and off[0] == 'tb':
            last = p[2][-1]
            if isinstance(last, int):
                idx = off if last == 0 else self.tbv(self.ts.map1(off[1], lambda x, c=last: x + c))
                return P(p[1], p[2][:-1] + (idx,))
            return ('ptop', 'term-index', False)
        if p[0] == 'p' and p[2]:
            last = p[2][-1]
            if isinstance(last, tuple) and last and last[0] == '$B':
                if off[0] != 'c':
                    return ('ptop', 'byte-arith', False)
                return P(p[1], p[2][:-1] + (('$B', last[1] + off[1] * (self.tsize(last[2]) or 1), last[2]),))
            if isinstance(last, tuple) and last and last[0] == '$C':
                if off[0] != 'c' or not isinstance(last[3], int):
                    return ('ptop', 'cast-arith', False)
                return P(p[1], p[2][:-1] + (('$C', last[1], last[2], last[3] + off[1]),))
        return Interp.ptr_add(self, st, p, off, node)

    def cells(self, loc, t=None):
        """Byte cells of a byte-addressed location: list of cell locations, or None for ordinary locations."""
        obj, path = loc
        if not path:
            return None
        last = path[-1]
        if isinstance(last, tuple) and last:
            if last[0] == '$B':
                n = self.tsize(last[2]) or 1
                return [(obj, path[:-1] + ('$b', last[1] + k)) for k in range(n)]
            if last[0] == '$C' and isinstance(last[1], int) and isinstance(last[3], int):
                return [(obj, path[:-1] + (last[1] + last[2] * last[3] + k,)) for k in range(last[2])]
        return None

    def load(self, st, loc, t=None, node=None):
        if loc is None:
            return TOP
        cs = self.cells(loc, t)
        if cs is None:
            return Interp.load(self, st, loc, t, node)
        vals = [Interp.load(self, st, c) for c in cs]
        return self.compose(vals)

    def store(self, st, loc, val, node=None, weak=False):
        if loc is None:
            return
        cs = self.cells(loc)
        if cs is None:
            return Interp.store(self, st, loc, val, node, weak)
        self.emit('prestore', st, loc=loc, val=val, node=node)
        for c, b in zip(cs, self.split(val, len(cs))):
            st.mem[c] = b
        self.emit('store', st, loc=loc, val=val, node=node)

    def compose(self, vals):
        if len(vals) == 1:
            return vals[0]

        if all(v[0] == 'c' for v in vals):
            return C(sum((v[1] & 0xff) << (8 * i) for i, v in enumerate(vals)))
        ids = []
        for v in vals:
            if v[0] == 'c':
                ids.append(self.ts.k(v[1] & 0xff))
            elif v[0] == 'tb':
                ids.append(v[1])
            else:
                return TOP
        return ('bv', tuple(ids))

    def split(self, val, n):
        if val[0] == 'tw':
            return [('opaque', 'word-byte')] * n
        if n == 1:
            if val[0] == 'bv':
                return [('tb', val[1][0])]
            return [val]
        if val[0] == 'c':
            return [C((val[1] >> (8 * i)) & 0xff) for i in range(n)]
        if val[0] == 'bv':
            ids = list(val[1]) + [self.ts.k(0)] * (n - len(val[1]))
            return [self.tbv(i) for i in ids[:n]]
        if val[0] == 'tb':
            lo = self.byte_of(val)
            return [lo] + [C(0)] * (n - 1) if lo is not None else [TOP] * n
        return [TOP] * n

    def tbv(self, i):
        return C(self.ts.kval(i)) if self.ts.is_k(i) else ('tb', i)

    def byte_of(self, v):
        """A 'tb' whose values all lie in 0..255, else None."""
        leaf, t = self.ts.view(v[1])
        if leaf is None:
            return C(t) if 0 <= t < 256 else None
        if t is IDENT or all(0 <= x < 256 for x in t):
            return v
        return None

    # ------------------------------------------------------------------ conversions
    def tid(self, v):
        if v[0] == 'tb':
            return v[1]
        if v[0] == 'c':
            return self.ts.k(v[1])
        return None

    def tconv(self, v, tf, tt, node):
        if v[0] == 'tw':
            if tt and tt.get('bits') == 32:
                return v
            return self.bad(node, 'word term converted to %s' % (tt or {}).get('s'))
        bits = tt.get('bits') if tt else None
        if bits is None:
            return self.bad(node, 'term converted to non-integer')
        if tt.get('k') == 'bool':
            if v[0] == 'tb':
                return ('tb', self.ts.map1(v[1], lambda x: 1 if x else 0))
            return self.bad(node, 'vector to bool')
        n = bits // 8
        if v[0] == 'bv':
            if n >= len(v[1]):
                if n == len(v[1]):
                    return v
                if tf and tf.get('sg') and tf.get('bits') == 8 * len(v[1]):
                    # widening a signed value: the new high bytes repeat the sign bit of the old top byte
                    ext = self.ts.map1(v[1][-1], lambda x: 0xff if (x & 0x80) else 0)
                    return ('bv', v[1] + (ext,) * (n - len(v[1])))
                return ('bv', v[1] + (self.ts.k(0),) * (n - len(v[1])))
            if n == 1:
                return self.tbv(v[1][0])
            return ('bv', v[1][:n])
        # 'tb': an int-valued function of one leaf
        if n == 1 and not tt.get('sg'):
            return ('tb', self.ts.map1(v[1], lambda x: x & 0xff))
        return v

    def to_bv(self, v, n):
        if v[0] == 'bv':
            ids = v[1]
            return tuple(ids[:n]) + (self.ts.k(0),) * max(0, n - len(ids))
        if v[0] == 'c':
            return tuple(self.ts.k((v[1] >> (8 * i)) & 0xff) for i in range(n))
        if v[0] == 'tb':
            b = self.byte_of(v)
            if b is None:
                return None
            return (self.tid(b),) + (self.ts.k(0),) * (n - 1)
        return None

    # ------------------------------------------------------------------ arithmetic
    def wid(self, v, pack=False):
        if v[0] == 'tw':
            return v[1]
        if v[0] == 'c':
            return self.ws.k(v[1])
        if v[0] == 'bv' and len(v[1]) == 4 and all(self.ts.node(i)[0] == 'v' for i in v[1]):
            # four message-byte leaves packed little-endian: one 32-bit word leaf
            return self.ws.leaf(tuple(self.ts.node(i)[1] for i in v[1]))
        if v[0] == 'bv' and len(v[1]) == 4 and self.word_mode and pack:
            if all(self.ts.is_k(i) for i in v[1]):
                return self.ws.k(sum((self.ts.kval(i) & 0xff) << (8 * q) for q, i in enumerate(v[1])))
            return self.ws.pack(v[1])
        return None

    def twv(self, i):
        return C(self.ws.kval(i)) if self.ws.is_k(i) else ('tw', i)

    LOST = ('opaque', 'lost')

    def lose(self, node, what):
        self.lost.append((what, nloc(node) if isinstance(node, dict) else str(node)))
        return self.LOST

    def arith(self, s, op, a, b, t, n=None):
        if self.lost and (a == self.LOST or b == self.LOST or ((a == TOP or b == TOP) and (is_term(a) or is_term(b) or a == b))):
            return self.LOST
        if self.lost and (a == TOP or b == TOP):
            return TOP
        if not (is_term(a) or is_term(b)):
            return Interp.arith(self, s, op, a, b, t, n)
        wordish = a[0] == 'tw' or b[0] == 'tw'
        if not wordish and self.word_mode and op in ('^', '&', '|', '+', '-') and (t or {}).get('bits') == 32 \
                and self.wid(a) is not None and self.wid(b) is not None and (a[0] == 'bv' or b[0] == 'bv'):
            wordish = True
        if not wordish and self.word_mode and op in ('<<', '>>') and b[0] == 'c' and b[1] % 8 and a[0] == 'bv' and self.wid(a, True) is not None:
            wordish = True
        if wordish:
            ws = self.ws
            bits = (t or {}).get('bits', 32)
            if bits != 32:
                return self.bad(n, 'word term in %d-bit arithmetic' % bits)
            ia, ib = self.wid(a, True), self.wid(b, True)
            if ia is None or ib is None:
                return self.bad(n, 'word term combined with %s' % (a[0] if ia is None else b[0]))
            if op == '+':
                return self.twv(ws.add([ia, ib]))
            if op == '-':
                return self.twv(ws.sub(ia, ib))
            if op in ('&', '|', '^'):
                return self.twv(ws.bitop(op, ia, ib))
            if op in ('<<', '>>') and b[0] == 'c':
                return self.twv(ws.shl(b[1], ia) if op == '<<' else ws.shr(b[1], ia))
            return self.bad(n, 'word operation %s' % op)
        ts = self.ts
        bits = (t or {}).get('bits', 32)
        nb = max(1, bits // 8)
        if not (is_int(a) or is_term(a)) or not (is_int(b) or is_term(b)):
            return self.bad(n, 'term arithmetic with a non-integer')
        # single-leaf integer arithmetic stays a table
        if a[0] in ('tb', 'c') and b[0] in ('tb', 'c') and op in ('+', '-', '*', '&', '|', '^', '<<', '>>', '%', '/'):
            ia, ib = self.tid(a), self.tid(b)
            fn = {'+': lambda x, y: x + y, '-': lambda x, y: x - y, '*': lambda x, y: x * y, '&': lambda x, y: x & y,
                  '|': lambda x, y: x | y, '^': lambda x, y: x ^ y, '<<': lambda x, y: x << y if 0 <= y < 64 else 0,
                  '>>': lambda x, y: x >> y if 0 <= y < 64 else 0, '%': lambda x, y: x % y if y else 0, '/': lambda x, y: x // y if y else 0}[op]
            mask = (1 << bits) - 1
            if op == '^':
                ba, bb = self.byte_of(a) if a[0] == 'tb' else a, self.byte_of(b) if b[0] == 'tb' else b
                if ba is not None and bb is not None:
                    return self.tbv(ts.xor([self.tid(ba), self.tid(bb)]))
            if op == '<<' and b[0] == 'c' and b[1] % 8 == 0 and a[0] == 'tb' and self.byte_of(a) is not None and b[1] > 0:
                k = b[1] // 8
                if k >= nb:
                    return C(0)
                return ('bv', (ts.k(0),) * k + (a[1],) + (ts.k(0),) * (nb - k - 1))
            r = ts.map2(ia, ib, lambda x, y: fn(x, y) & mask if not (t or {}).get('sg') else fn(x, y))
            if r is not None:
                return self.tbv(r)
            if op in ('+', '-') and a[0] == 'tb' and b[0] == 'tb':
                # carry-style arithmetic over two unknown bytes: outside the byte-term language; the value is given up (it is
                # no term from here on, so whatever depends on it is undecided) but the evaluation goes on
                return self.lose(n, 'byte terms over different leaves combined with %s' % op)
            return self.bad(n, 'byte terms over different leaves combined with %s' % op)
        va, vb = self.to_bv(a, nb), self.to_bv(b, nb)
        if op in ('<<', '>>') and b[0] == 'c':
            if va is None:
                return self.bad(n, 'shift of an unrepresentable value')
            if b[1] % 8:
                return self.bad(n, 'vector shift by %d bits' % b[1])
            k = b[1] // 8
            z = ts.k(0)
            if op == '<<':
                ids = ((z,) * k + va)[:nb]
            else:
                ids = (va[k:] + (z,) * k)[:nb]
            return self.pack(ids)
        if va is None or vb is None:
            return self.bad(n, 'vector operand not representable (%s)' % op)
        if op == '^':
            return self.pack(tuple(ts.xor([x, y]) for x, y in zip(va, vb)))
        if op in ('|', '+'):
            out = []
            for x, y in zip(va, vb):
                if ts.is_k(x) and ts.kval(x) == 0:
                    out.append(y)
                elif ts.is_k(y) and ts.kval(y) == 0:
                    out.append(x)
                elif op == '|':
                    out.append(ts.bin('|', x, y))
                elif self.word_mode and nb == 4 and self.wid(a, True) is not None and self.wid(b, True) is not None:
                    return self.twv(self.ws.add([self.wid(a, True), self.wid(b, True)]))
                else:
                    return self.bad(n, 'vector addition with overlapping bytes')
            return self.pack(tuple(out))
        if op == '&':
            out = []
            for x, y in zip(va, vb):
                if ts.is_k(y):
                    m = ts.kval(y)
                    out.append(x if m == 0xff else (ts.k(0) if m == 0 else ts.map1(x, lambda p, m=m: p & m)))
                elif ts.is_k(x):
                    m = ts.kval(x)
                    out.append(y if m == 0xff else (ts.k(0) if m == 0 else ts.map1(y, lambda p, m=m: p & m)))
                else:
                    r = ts.map2(x, y, lambda p, q: p & q)
                    if r is None:
                        return self.bad(n, 'and of two bytes over different leaves')
                    out.append(r)
            return self.pack(tuple(out))
        return self.bad(n, 'vector operation %s' % op)

    def pack(self, ids):
        ts = self.ts
        if all(ts.is_k(i) for i in ids):
            return C(sum(ts.kval(i) << (8 * k) for k, i in enumerate(ids)))
        if all(ts.is_k(i) and ts.kval(i) == 0 for i in ids[1:]):
            return self.tbv(ids[0])
        return ('bv', tuple(ids))

    def ev_ConditionalOperator(self, n, st, fr):
        res = self.ev(n['cond'], st, fr)
        out = []
        for s, c in res:
            if is_term(c):
                if c[0] != 'tb':
                    out.append((s, self.bad(n, 'vector used as a condition')))
                    continue
                # both arms are evaluated (they have no side effects in straight-line table code) and selected pointwise
                ra = self.ev(n['then'], s, fr)
                rb = self.ev(n['else'], ra[0][0], fr) if ra else []
                if len(ra) != 1 or len(rb) != 1:
                    out.append((s, self.bad(n, 'conditional arms fork')))
                    continue
                a, b = ra[0][1], rb[0][1]
                ia, ib = self.tid(a), self.tid(b)
                if ia is None or ib is None:
                    out.append((rb[0][0], self.bad(n, 'conditional arm not a byte term')))
                    continue
                r = self.ts.select(c[1], ia, ib)
                out.append((rb[0][0], self.tbv(r) if r is not None else self.bad(n, 'conditional over different leaves')))
            else:
                tv = truth(c, s.sym)
                if tv is None:
                    for s2, b in self.cond(n['cond'], s, fr):
                        out += self.ev(n['then'] if b else n['else'], s2, fr)
                else:
                    out += self.ev(n['then'] if tv else n['else'], s, fr)
        return out

    def _table_load(self, val, path, st):
        if len(path) == 1 and isinstance(path[0], tuple) and path[0] and path[0][0] == 'tb' and isinstance(val, list):
            return self.tbv(self.ts.lookup(val, path[0][1]))
        return Interp._table_load(self, val, path, st)

    def ev_UnaryOperator(self, n, st, fr):
        if n['op'] == '~':
            out = []
            for s, v in self.ev(n['e'], st, fr):
                if v[0] == 'tw':
                    out.append((s, self.twv(self.ws.bitnot(v[1]))))
                elif is_term(v):
                    t = self.T(n)
                    nb = max(1, (t or {}).get('bits', 32) // 8)
                    bv = self.to_bv(v, nb)
                    out.append((s, self.pack(tuple(self.ts.map1(x, lambda p: p ^ 0xff) for x in bv)) if bv else self.bad(n, 'complement of unrepresentable value')))
                else:
                    out += [(s, v2) for s, v2 in Interp.ev_UnaryOperator(self, dict(n, e={'k': 'IntegerLiteral', 'cv': v[1], 't': n['e'].get('t'), '_id': 0, 'l': 0}), s, fr)] if v[0] == 'c' else [(s, TOP)]
            return out
        return Interp.ev_UnaryOperator(self, n, st, fr)

    def ptr_index_term(self, st, p, idx):
        return None
