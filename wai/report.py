"""Verdict bookkeeping: obligations, known findings, evidence, exit policy.

exit 0  every rule instance decided and held (or is a listed known finding)
exit 1  VIOLATION property=<id> replay=<path>   a decided instance fails and is not listed
exit 2  ANALYSIS-BROKEN property=<id> reason=...  anchor vanished / undecided construct
"""
import json
import os
import re
import time

VERIF = os.path.dirname(os.path.dirname(os.path.abspath(__file__)))
KNOWN = os.path.join(VERIF, 'known_findings.txt')
EVDIR = os.environ.get('WENCRY_EVIDENCE_DIR') or os.path.join(VERIF, 'evidence')


def load_known():
    open_, fixed = {}, []
    if not os.path.exists(KNOWN):
        return open_, fixed
    for line in open(KNOWN, encoding='utf-8'):
        line = line.strip()
        if not line or line.startswith('#'):
            continue
        m = re.match(r'open:\s+property=(\S+)\s+key=(\S+)\s*(?:--\s*(.*))?$', line)
        if m:
            open_.setdefault(m.group(1), {})[m.group(2)] = m.group(3) or ''
            continue
        m = re.match(r'fixed:\s+property=(\S+)\s+(\S+)\s+(.*)$', line)
        if m:
            fixed.append((m.group(1), m.group(2), m.group(3)))
    return open_, fixed


class Obligation:
    def __init__(self, rule, key, ok, where, detail, path=None, state=None):
        self.rule = rule        # e.g. 'M1'
        self.key = key          # rule@file::function::construct (no line numbers)
        self.ok = ok            # True / False / None (undecided)
        self.where = where      # file:line for the human
        self.detail = detail
        self.path = path or []
        self.state = state or {}

    def as_dict(self):
        return {'rule': self.rule, 'key': self.key, 'ok': self.ok, 'where': self.where,
                'detail': self.detail, 'path': self.path, 'state': self.state}


class Recorder:
    def __init__(self, pid, tier, level='other'):
        self.pid = pid
        self.tier = tier
        self.level = level
        self.t0 = time.time()
        self.obls = []
        self.instances = {}     # rule -> (found, required)
        self.analysed = {'units': [], 'functions': set(), 'callsites': 0}
        self.assumptions = []
        self.notes = []
        self.witnesses = []     # (name, fired)
        self.extra = {}
        self.broken = []

    # --- recording
    def ob(self, rule, key, ok, where='', detail='', path=None, state=None):
        # verdicts are exactly True / False / None (undecided): a falsy non-boolean such as () must not slip through as "nothing"
        if ok is not None:
            ok = bool(ok)
        self.obls.append(Obligation(rule, key, ok, where, detail, path, state))
        return ok

    def count(self, rule, found, required):
        """Instance count of a rule: fewer than the frozen table is analysis-broken."""
        # judged in finish(): a per-property module may drop the counts of rules that do not belong to the property
        self.instances[rule] = (found, required)

    def witness(self, name, fired):
        self.witnesses.append((name, bool(fired)))
        if not fired:
            self.broken.append('witness %s did not fire' % name)

    def broke(self, reason):
        self.broken.append(reason)

    def assume(self, text):
        if text not in self.assumptions:
            self.assumptions.append(text)

    def saw(self, interp):
        self.analysed['functions'] |= set(interp.fn_visited)
        self.analysed['callsites'] += len(interp.callsites_seen)

    # --- finishing
    def finish(self, prog=None):
        open_, fixed = load_known()
        known = open_.get(self.pid, {})
        viol, knownhit, undecided = [], [], []
        for o in self.obls:
            if o.ok is False:
                if o.key in known:
                    knownhit.append(o)
                else:
                    viol.append(o)
            elif o.ok is None:
                undecided.append(o)
        for o in undecided:
            self.broken.append('undecided: %s at %s: %s' % (o.key, o.where, o.detail))
        for rule, (found, required) in sorted(self.instances.items()):
            if found < required:
                self.broken.append('rule %s matched %d instance(s), frozen table requires >= %d' % (rule, found, required))
        lines = []
        seen_known = set()
        for o in knownhit:
            if o.key in seen_known:
                continue
            seen_known.add(o.key)
            lines.append('KNOWN-FINDING: property=%s %s -- %s (%s)' % (self.pid, o.key, known[o.key] or o.detail, o.where))
        code = 0
        replays = []
        if viol:
            code = 1
            rdir = os.path.join(EVDIR, 'replays')
            os.makedirs(rdir, exist_ok=True)
            seen = set()
            for i, o in enumerate(viol):
                if o.key in seen:
                    continue
                seen.add(o.key)
                rp = os.path.join(rdir, '%s-%d.json' % (self.pid, len(seen)))
                with open(rp, 'w') as f:
                    json.dump({'property': self.pid, **o.as_dict()}, f, indent=1, default=str)
                replays.append(rp)
                lines.append('%s: %s: %s [%s]' % (o.where, o.rule, o.detail, o.key))
                lines.append('VIOLATION property=%s replay=%s' % (self.pid, rp))
        if self.broken and code == 0:
            code = 2
            for b in self.broken[:20]:
                lines.append('ANALYSIS-BROKEN property=%s reason=%s' % (self.pid, b))
        self.write_evidence(viol, knownhit, undecided, prog)
        total = len(self.obls)
        held = sum(1 for o in self.obls if o.ok is True)
        lines.append('%s %s: %d obligations, %d held, %d known-finding, %d violated, %d undecided; %d functions, %.1fs'
                     % (self.pid, self.tier, total, held, len(knownhit), len(viol), len(undecided),
                        len(self.analysed['functions']), time.time() - self.t0))
        print('\n'.join(lines))
        return code

    def write_evidence(self, viol, knownhit, undecided, prog):
        os.makedirs(EVDIR, exist_ok=True)
        total = len(self.obls)
        held = sum(1 for o in self.obls if o.ok is True)
        samples = []
        per_rule = {}
        for o in self.obls:
            per_rule.setdefault(o.rule, []).append(o)
        for r, os_ in sorted(per_rule.items()):
            for o in os_[:3]:
                samples.append({'rule': o.rule, 'key': o.key, 'where': o.where, 'verdict':
                                'held' if o.ok else ('undecided' if o.ok is None else 'FAILED'), 'detail': o.detail[:400]})
        fnames = sorted(self.analysed['functions'])
        if prog is not None:
            fnames = sorted(prog.functions[f]['q'] for f in self.analysed['functions'] if f in prog.functions)
        cov = {
            'explanation': self.extra.get('explanation', ''),
            'obligations': total,
            'discharged': held + len(knownhit),
            'evaluations': total,
            'distinct_nontrivial': len({o.key for o in self.obls}),
            'rule': 'one obligation per (rule, resolved construct, abstract path); distinct = distinct construct keys',
            'samples': samples[:60],
            'rules': {r: {'obligations': len(v), 'held': sum(1 for o in v if o.ok is True)} for r, v in sorted(per_rule.items())},
            'instances': {r: {'found': a, 'required_at_least': b} for r, (a, b) in sorted(self.instances.items())},
            'units_analysed': self.analysed['units'],
            'functions_analysed': len(fnames),
            'function_names': fnames[:400],
            'callsites_evaluated': self.analysed['callsites'],
            'witnesses': [{'name': n, 'fired': f} for n, f in self.witnesses],
            'known_findings_printed': sorted({o.key for o in knownhit}),
            'undecided': [o.key for o in undecided],
            'checker_cmd': './check %s --tier %s' % (self.pid, self.tier),
            'trusted_base': ['clang 14 front end (AST, types, constant evaluation)', 'wfacts extractor',
                             'wai interpreter transfer functions', 'library models in wai/models.py'],
            'exhaustive': False,
        }
        for k, v in self.extra.items():
            if k != 'explanation':
                cov[k] = v
        ev = {
            'property_id': self.pid,
            'tier': self.tier,
            'seed': int(os.environ.get('VERIF_SEED', '0') or 0),
            'level': self.level,
            'coverage': cov,
            'assumptions': self.assumptions,
            'wall_s': round(time.time() - self.t0, 2),
            'violations': len({o.key for o in viol}),
        }
        with open(os.path.join(EVDIR, self.pid + '.json'), 'w') as f:
            json.dump(ev, f, indent=1, default=str)
