"""Word-term domain (tier 2, hash compress functions): hash-consed 32-bit word terms with a canonical form.

   ('k', c)                       constant
   ('leaf', name)                 free 32-bit word (a chaining word, or four message bytes packed)
   ('add', ((id, n), ...), c)     sum mod 2^32 of n_i * t_i + c   (AC: sorted multiset, constants folded)
   ('bit', tt, (id, ...))         bitwise function of n <= 6 distinct word terms given by its truth table
                                  (any spelling of Ch / Maj / Parity / F G H I, xor of rotations, ~x ... is one node)
   ('rot', k, id)                 rotate left by k (1..31); rotations compose; (x<<k) op (x>>(32-k)) with op in | + ^ is a rotation
   ('shl', k, id) / ('shr', k, id)
   ('pack', (b0, b1, b2, b3))     four byte terms of the byte-term store `bytes` packed little-endian (opaque: only evaluated)
A leaf named by a 4-tuple of byte names is the little-endian packing of those message bytes; evaluation assigns bytes, so that a
pack node and a leaf over the same bytes agree.
Equal ids => equal functions (every rewrite is an equivalence).  Unequal ids are reported as a violation only together with
an assignment on which the two terms evaluate differently.
"""
import random

M32 = 0xffffffff


class WS:
    def __init__(self, bytes_store=None):
        self.nodes = []
        self.index = {}
        self.bytes = bytes_store

    def mk(self, node):
        i = self.index.get(node)
        if i is None:
            i = len(self.nodes)
            self.nodes.append(node)
            self.index[node] = i
        return i

    def k(self, c):
        return self.mk(('k', c & M32))

    def leaf(self, name):
        return self.mk(('leaf', name))

    def pack(self, ids):
        return self.mk(('pack', tuple(ids)))

    def is_k(self, i):
        return self.nodes[i][0] == 'k'

    def kval(self, i):
        return self.nodes[i][1]

    # ---- addition
    def add(self, ids, const=0):
        cnt = {}
        c = const
        stack = [(i, 1) for i in ids]
        while stack:
            i, m = stack.pop()
            n = self.nodes[i]
            if n[0] == 'k':
                c += m * n[1]
            elif n[0] == 'add':
                c += m * n[2]
                for j, mj in n[1]:
                    stack.append((j, m * mj))
            else:
                cnt[i] = (cnt.get(i, 0) + m) & M32
        items = tuple(sorted((i, m) for i, m in cnt.items() if m))
        c &= M32
        if not items:
            return self.k(c)
        if len(items) == 1 and items[0][1] == 1 and c == 0:
            return items[0][0]
        # x + x-shifted patterns are left alone; rotation is recognised in bitop / here for two shifted copies
        if len(items) == 2 and c == 0 and items[0][1] == 1 and items[1][1] == 1:
            r = self._rot_pair(items[0][0], items[1][0])
            if r is not None:
                return r
        return self.mk(('add', items, c))

    def neg(self, i):
        return self.add_scaled(i, M32)

    def add_scaled(self, i, m):
        n = self.nodes[i]
        if n[0] == 'k':
            return self.k(n[1] * m)
        if n[0] == 'add':
            return self.mk(('add', tuple(sorted((j, (mj * m) & M32) for j, mj in n[1] if (mj * m) & M32)), (n[2] * m) & M32))
        return self.mk(('add', ((i, m & M32),), 0))

    def sub(self, a, b):
        return self.add([a, self.add_scaled(b, M32)])

    # ---- shifts and rotations
    def rot(self, k, i):
        k %= 32
        if k == 0:
            return i
        n = self.nodes[i]
        if n[0] == 'k':
            return self.k(((n[1] << k) | (n[1] >> (32 - k))) & M32)
        if n[0] == 'rot':
            return self.rot(k + n[1], n[2])
        return self.mk(('rot', k, i))

    def shl(self, k, i):
        if k == 0:
            return i
        if k >= 32:
            return self.k(0)
        n = self.nodes[i]
        if n[0] == 'k':
            return self.k(n[1] << k)
        return self.mk(('shl', k, i))

    def shr(self, k, i):
        if k == 0:
            return i
        if k >= 32:
            return self.k(0)
        n = self.nodes[i]
        if n[0] == 'k':
            return self.k(n[1] >> k)
        return self.mk(('shr', k, i))

    def _rot_pair(self, a, b):
        na, nb = self.nodes[a], self.nodes[b]
        if na[0] == 'shr' and nb[0] == 'shl':
            na, nb = nb, na
        if na[0] == 'shl' and nb[0] == 'shr' and na[2] == nb[2] and na[1] + nb[1] == 32:
            return self.rot(na[1], na[2])
        return None

    # ---- bitwise
    def _view(self, i):
        n = self.nodes[i]
        if n[0] == 'bit':
            return n[1], n[2]
        return 0b10, (i,)       # identity on one operand: tt bit for input 1 is 1

    def bitop(self, op, a, b):
        if op in ('|', '^'):
            r = self._rot_pair(a, b)
            if r is not None:
                return r
        ta, ia = self._view(a)
        tb, ib = self._view(b)
        ids = tuple(sorted(set(ia) | set(ib)))
        if len(ids) > 6:
            return self.mk(('bop', op, tuple(sorted((a, b)))))
        pa = [ids.index(x) for x in ia]
        pb = [ids.index(x) for x in ib]
        tt = 0
        for m in range(1 << len(ids)):
            xa = sum(((m >> p) & 1) << j for j, p in enumerate(pa))
            xb = sum(((m >> p) & 1) << j for j, p in enumerate(pb))
            va, vb = (ta >> xa) & 1, (tb >> xb) & 1
            v = (va & vb) if op == '&' else (va | vb) if op == '|' else (va ^ vb)
            tt |= v << m
        return self._mkbit(tt, ids)

    def bitnot(self, a):
        ta, ia = self._view(a)
        n = len(ia)
        return self._mkbit(ta ^ ((1 << (1 << n)) - 1), ia)

    def _mkbit(self, tt, ids):
        # constants among the operands are kept as operands (bit-parallel), but all-zero / all-one constants fold
        ids = list(ids)
        changed = True
        while changed:
            changed = False
            for p, i in enumerate(ids):
                n = len(ids)
                if self.is_k(i) and self.kval(i) in (0, M32):
                    bit = 1 if self.kval(i) else 0
                    tt = self._restrict(tt, n, p, bit)
                    ids.pop(p)
                    changed = True
                    break
                # operand without influence
                if self._restrict(tt, n, p, 0) == self._restrict(tt, n, p, 1):
                    tt = self._restrict(tt, n, p, 0)
                    ids.pop(p)
                    changed = True
                    break
        n = len(ids)
        if n == 0:
            return self.k(M32 if tt & 1 else 0)
        if n == 1 and tt == 0b10:
            return ids[0]
        if all(self.is_k(i) for i in ids):
            v = 0
            for bitpos in range(32):
                m = sum(((self.kval(i) >> bitpos) & 1) << j for j, i in enumerate(ids))
                v |= ((tt >> m) & 1) << bitpos
            return self.k(v)
        return self.mk(('bit', tt, tuple(ids)))

    @staticmethod
    def _restrict(tt, n, p, bit):
        out = 0
        k = 0
        for m in range(1 << n):
            if ((m >> p) & 1) == bit:
                out |= ((tt >> m) & 1) << k
                k += 1
        return out

    # ---- evaluation (only to confirm an inequality)
    def evaluate(self, i, env, memo=None):
        memo = {} if memo is None else memo
        stack = [i]
        while stack:
            j = stack[-1]
            if j in memo:
                stack.pop()
                continue
            n = self.nodes[j]
            t = n[0]
            if t == 'k':
                memo[j] = n[1]
            elif t == 'leaf':
                if isinstance(n[1], tuple):
                    memo[j] = sum((env[b] & 0xff) << (8 * q) for q, b in enumerate(n[1]))
                else:
                    memo[j] = env[n[1]] & M32
            elif t == 'pack':
                memo[j] = sum((self.bytes.evaluate(b, env) & 0xff) << (8 * q) for q, b in enumerate(n[1])) & M32
            elif t == 'add':
                miss = [x for x, _ in n[1] if x not in memo]
                if miss:
                    stack.extend(miss)
                    continue
                memo[j] = (sum(memo[x] * m for x, m in n[1]) + n[2]) & M32
            elif t in ('rot', 'shl', 'shr'):
                if n[2] not in memo:
                    stack.append(n[2])
                    continue
                v = memo[n[2]]
                memo[j] = (((v << n[1]) | (v >> (32 - n[1]))) & M32) if t == 'rot' else ((v << n[1]) & M32 if t == 'shl' else v >> n[1])
            elif t == 'bit':
                miss = [x for x in n[2] if x not in memo]
                if miss:
                    stack.extend(miss)
                    continue
                v = 0
                for bitpos in range(32):
                    m = sum(((memo[x] >> bitpos) & 1) << q for q, x in enumerate(n[2]))
                    v |= ((n[1] >> m) & 1) << bitpos
                memo[j] = v
            elif t == 'bop':
                miss = [x for x in n[2] if x not in memo]
                if miss:
                    stack.extend(miss)
                    continue
                a, b = memo[n[2][0]], memo[n[2][1]]
                memo[j] = (a & b) if n[1] == '&' else (a | b) if n[1] == '|' else (a ^ b)
            stack.pop()
        return memo[i]

    def leaves(self, i):
        acc, seen, stack = set(), set(), [i]
        while stack:
            j = stack.pop()
            if j in seen:
                continue
            seen.add(j)
            n = self.nodes[j]
            if n[0] == 'leaf':
                if isinstance(n[1], tuple):
                    acc.update(n[1])
                else:
                    acc.add(n[1])
            elif n[0] == 'pack':
                for b in n[1]:
                    acc |= self.bytes.leaves(b)
            elif n[0] == 'add':
                stack.extend(x for x, _ in n[1])
            elif n[0] in ('rot', 'shl', 'shr'):
                stack.append(n[2])
            elif n[0] in ('bit', 'bop'):
                stack.extend(n[2])
        return acc

    def show(self, i, depth=2):
        n = self.nodes[i]
        if n[0] == 'k':
            return '0x%08x' % n[1]
        if n[0] == 'leaf':
            return str(n[1]) if not isinstance(n[1], tuple) else 'W(%s)' % ','.join(map(str, n[1]))
        if depth <= 0:
            return '#%d' % i
        if n[0] == 'add':
            return '(' + ' + '.join(('%d*' % m if m != 1 else '') + self.show(x, depth - 1) for x, m in n[1]) + (' + 0x%x' % n[2] if n[2] else '') + ')'
        if n[0] in ('rot', 'shl', 'shr'):
            return '%s%d(%s)' % (n[0], n[1], self.show(n[2], depth - 1))
        if n[0] == 'bit':
            return 'bit[%x](%s)' % (n[1], ','.join(self.show(x, depth - 1) for x in n[2]))
        if n[0] == 'pack':
            return 'pack(%s)' % ','.join(self.bytes.show(b, depth - 1) for b in n[1])
        return str(n)


def compare_words(ws, a, b, samples=16, seed=20260926):
    if a == b:
        return 'equal'
    names = sorted(ws.leaves(a) | ws.leaves(b), key=str)
    rnd = random.Random(seed)
    for _ in range(samples):
        env = {n: rnd.getrandbits(32) for n in names}     # byte names are read through & 0xff
        va, vb = ws.evaluate(a, env), ws.evaluate(b, env)
        if va != vb:
            return ('differ', va, vb)
    return 'undecided'
