"""wai: abstract interpreter over the structured, type-checked AST exported by wfacts.

Disjunctive (set of states) interpretation with inlining of repository functions,
hand-written models for library functions, listeners for rule-specific typestate.
Nothing of wencry is ever executed: values are abstract (values.py).
"""
from .values import *
from .facts import AnalysisBroken, walk, strip, loc as nloc

MAX_CONCRETE_ITERS = 5000
MAX_ABSTRACT_ITERS = 12
MAX_STATES = 3000
import os
DEBUG = bool(os.environ.get('WAI_DEBUG'))


def float_arith(op, a, b):
    """Interval arithmetic on ('f', lo, hi); anything doubtful is the whole line."""
    inf = float('inf')
    al, ah, bl, bh = a[1], a[2], b[1], b[2]
    try:
        if op == '+':
            r = (al + bl, ah + bh)
        elif op == '-':
            r = (al - bh, ah - bl)
        elif op == '*':
            c = [x * y if not ((x in (inf, -inf) and y == 0) or (y in (inf, -inf) and x == 0)) else 0.0 for x in (al, ah) for y in (bl, bh)]
            r = (min(c), max(c))
        elif op == '/':
            if bl <= 0 <= bh:
                return ('f', -inf, inf)
            c = []
            for x in (al, ah):
                for y in (bl, bh):
                    c.append(x / y if not (x in (inf, -inf) and y in (inf, -inf)) else 0.0)
            r = (min(c), max(c))
        else:
            return ('f', -inf, inf)
    except (OverflowError, ZeroDivisionError):
        return ('f', -inf, inf)
    if r[0] != r[0] or r[1] != r[1]:
        return ('f', -inf, inf)
    return ('f', r[0], r[1])


TRUNC_SOURCES = ('$fsize', '$got', '$strlen', '$strnlen', '$atoi', '$rand', '$tr', '$argc', '$consumed')
CTOR_CONSTS = {}        # member declaration -> {class: constant}: see ensure_ctor_consts
_CC_DONE = []


def ensure_ctor_consts(prog):
    """Const-qualified integer members of base classes that the default constructor of a concrete class fixes to a constant
    (for example digest and block length handed to the base constructor): found by running each default constructor."""
    if _CC_DONE and _CC_DONE[0] is prog:
        return
    _CC_DONE[:] = [prog]
    CTOR_CONSTS.clear()
    cands = {}
    for r in prog.records.values():
        for f in r['fields']:
            t = prog.type(f['t']) or {}
            if t.get('k') == 'int' and (t.get('const') or str(t.get('s', '')).startswith('const ')):
                cands[f['d'][2:]] = r['q']
    if not cands:
        return
    OBJ = ('ext', 'ctorprobe')
    for r in prog.records.values():
        bases = set(prog.all_bases(r['q'])) if hasattr(prog, 'all_bases') else set()
        mine = {fd for fd, owner in cands.items() if owner in bases}
        if not mine:
            continue
        ctors = [f for f in prog.functions.values() if f.get('ctor') and f.get('rec') == r['q'] and not f['params'] and f.get('body') is not None]
        if len(ctors) != 1:
            continue
        try:
            I = Interp(prog)
            res = I.run(ctors[0], State(), this=P(OBJ, ()))
        except Exception:
            continue
        for fd in mine:
            vals = {s_.mem.get((OBJ, (fd,))) for s_, _ in res}
            if len(vals) == 1:
                v = next(iter(vals))
                if v is not None and v[0] == 'c':
                    CTOR_CONSTS.setdefault(fd, {})[r['q']] = v


class Budget(AnalysisBroken):
    pass


class State:
    __slots__ = ('mem', 'comps', 'sym', 'trace', 'abs')

    def __init__(self):
        self.mem = {}
        self.comps = {}
        self.sym = {}
        self.trace = ()
        self.abs = frozenset()      # keys of mem whose path has an abstract index

    def copy(self):
        s = State()
        s.mem = dict(self.mem)
        s.comps = dict(self.comps)
        s.sym = dict(self.sym)
        s.trace = self.trace
        s.abs = self.abs
        return s

    def key(self):
        return (frozenset(self.mem.items()), frozenset(self.comps.items()), frozenset(self.sym.items()))

    def note(self, what):
        self.trace = self.trace + (what,)


class Frame:
    def __init__(self, fn, ctx, depth):
        self.fn = fn
        self.ctx = ctx              # tuple of call-site node ids
        self.depth = depth
        self.vars = {}              # decl id -> loc
        self.this = None            # loc holding the this pointer
        self.scopes = []
        self.ctx_fns = frozenset()

    def local(self, declid):
        l = self.vars.get(declid)
        if l is None:
            l = (('L', declid, self.ctx), ())
            self.vars[declid] = l
        return l


class Out:
    """Outcome of executing a statement over a set of states."""
    __slots__ = ('norm', 'brk', 'cont', 'ret')

    def __init__(self, norm=None):
        self.norm = norm if norm is not None else []
        self.brk = []
        self.cont = []
        self.ret = []

    def absorb(self, o):
        self.brk += o.brk
        self.cont += o.cont
        self.ret += o.ret


def concrete_path(path):
    """Does path denote exactly one location in every concretisation?  ints, field names and
    linear forms over (rigid) symbols do; intervals / sets / TOP indices do not."""
    for x in path:
        if isinstance(x, tuple):
            if x and x[0] == '$cast' and (isinstance(x[2], int) or (isinstance(x[2], tuple) and x[2][0] == 'l')):
                continue
            if x and x[0] == 'l':
                continue
            return False
    return True


def has_abs(path):
    return any(isinstance(x, tuple) for x in path)


class Interp:
    def __init__(self, prog, listeners=(), models=None, inline_depth=10, opaque=(), sym_ranges=None):
        ensure_ctor_consts(prog)
        self.prog = prog
        self.listeners = list(listeners)
        self.models = dict(models or {})
        self.inline_depth = inline_depth
        self.opaque = set(opaque)           # qualified names never inlined
        self.unmodelled = []                # (what, where) constructs met without a model
        self.probing = 0                    # >0 while a loop body is evaluated only to learn its effect
        self.counter = 0
        self.stats = {'calls_inlined': 0, 'nodes': 0, 'forks': 0, 'loops_abstract': 0, 'loops_concrete': 0}
        self.fn_visited = set()
        self.frames = []
        self.concrete_loops = False
        self.name_intervals = True
        self.symbolic_tables = None     # id(list) -> name: lookups with a bit-field index stay symbolic
        self.inverse_tables = {}        # name of table A -> name of table B with A[B[x]] = x
        self.oob = []                   # (index, size) of reads of constant tables with a concrete index outside the table
        self.thrown = []                # (where, path) of throw expressions reached
        self.diverged = []              # (loop, path): a loop head state that recurs with no decision left open
        self.float_conv = []            # conversions of a floating value to an integer type that cannot hold its whole range (undefined)
        self.const_wraps = []           # implicit conversions of a computed constant that lose high bits
        self.truncs = []                # conversions of a linear value to an integer type that cannot hold its whole range
        self.trunc_decisions = []       # branch decisions taken on such a converted value (narrowing conversions only)
        self.uninit_reads = []          # (location, where): scalar reads of storage that was allocated and never written
        self.oob_may = []               # (table, index value, (lo, hi), size, where): index range of a constant-table read leaves the table
        self.const_override = None      # qualified global name -> value: analyse the code for another value of a constant
        self.callsites_seen = set()

    # ------------------------------------------------------------------ util
    def emit(self, kind, st, **kw):
        name = 'on_' + kind
        for l in self.listeners:
            h = getattr(l, name, None)
            if h is not None:
                h(self, st, **kw)

    def unknown(self, node, what):
        self.unmodelled.append((what, nloc(node) if isinstance(node, dict) else str(node)))

    def T(self, node_or_key):
        if isinstance(node_or_key, dict):
            node_or_key = node_or_key.get('t')
        if not node_or_key:
            return None
        return self.prog.type(node_or_key)

    def overridden_const(self, name, st, fr):
        """Value of a constant under const_override: the override itself, or a constant whose initialiser mentions one."""
        if not self.const_override or not name:
            return None
        if name in self.const_override:
            return C(self.const_override[name])
        cache = self.__dict__.setdefault('_ovcache', {})
        if name in cache:
            return cache[name]
        g = self.prog.globals.get(name)
        res = None
        if g is not None and g.get('const') and g.get('init') is not None:
            from .facts import walk as _walk
            deps = [x for x in _walk(g['init']) if x.get('k') in ('DeclRefExpr', 'MemberExpr') and (x.get('glob') or x.get('mk') == 'Var')]
            names = [(x.get('d') or '')[2:] if x.get('k') == 'DeclRefExpr' else x.get('q') for x in deps]
            if any(self.overridden_const(nm, st, fr) is not None for nm in names if nm and nm != name):
                cache[name] = None
                r = self.ev(g['init'], st, fr)
                if len(r) == 1 and r[0][1][0] == 'c':
                    res = r[0][1]
        cache[name] = res
        return res

    def ref_fields(self):
        rf = getattr(self, '_ref_fields', None)
        if rf is None:
            rf = set()
            for r in self.prog.records.values():
                for f in r['fields']:
                    if self.prog.type(f['t']).get('k') == 'ref':
                        rf.add(r['q'] + '::' + f['n'])
            self._ref_fields = rf
        return rf

    def elem_size_hint(self, node):
        """Element size of the array a (void*-converted) pointer argument points into."""
        n = node
        while isinstance(n, dict) and n.get('k') in ('ImplicitCastExpr', 'CStyleCastExpr', 'CXXStaticCastExpr',
                                                     'CXXReinterpretCastExpr') and n.get('ck') in ('BitCast', 'NoOp'):
            t = self.T(n)
            if t and t.get('k') == 'ptr' and self.prog.type(t['to']).get('k') != 'void':
                break
            n = n['e']
        t = self.T(n)
        if t and t.get('k') == 'ptr':
            to = self.prog.type(t['to'])
            return to.get('size') or 1
        return 1

    def fresh(self, prefix):
        self.counter += 1
        return '%s%d' % (prefix, self.counter)

    # ---------------------------------------------------------------- memory
    def _match(self, st, a, b):
        """May path element a (stored key) equal path element b (query)?  -> 'must'/'may'/None"""
        if a == b:
            return 'must' if not isinstance(a, tuple) or a[0] == '$cast' else 'may_same'
        if isinstance(a, str) or isinstance(b, str):
            return None
        if isinstance(a, tuple) and a and a[0] == '$cast' or isinstance(b, tuple) and b and b[0] == '$cast':
            return 'may'
        va = C(a) if isinstance(a, int) else a
        vb = C(b) if isinstance(b, int) else b
        c = compare('==', va, vb, st.sym)
        if c is False:
            return None
        return 'may'

    def load(self, st, loc, t=None, node=None):
        if loc is None:
            return TOP
        obj, path = loc
        key = (obj, path)
        # a global that a signal handler writes can change between any two statements: every read sees an unknown value
        if isinstance(obj, str) and obj.startswith('G:') and obj[2:] in self.async_globals():
            return self.enum_default(TOP, t)
        v = st.mem.get(key)
        if v is not None and concrete_path(path):
            return v
        if v is None and path and isinstance(path[-1], str):
            cc = CTOR_CONSTS.get(path[-1])
            if cc:
                # a const member that every constructor of the (dynamic) class sets to the same constant: an object the
                # analysis starts from without running its constructor has that value
                recs = [getattr(self, 'assume_class', None)] + [fr_.fn.get('rec') for fr_ in self.frames]
                for rq in recs:
                    if rq in cc:
                        return cc[rq]
        # constant global tables come straight from the facts
        if isinstance(obj, str) and obj.startswith('G:'):
            if self.const_override and not path:
                ov = self.overridden_const(obj[2:], st, self.frames[-1] if self.frames else None)
                if ov is not None:
                    return ov
            g = self.prog.globals.get(obj[2:])
            if g is not None and g.get('const') and 'value' in g:
                self._tl_ctx = (obj[2:], node)
                r = self._table_load(g['value'], path, st)
                if r == TOP and g.get('init') is not None and concrete_path(path):
                    r2 = self._init_load(g, path)
                    if r2 is not None:
                        return r2
                return r
            if g is not None and g.get('const') and g.get('init') is not None and concrete_path(path):
                r2 = self._init_load(g, path)
                if r2 is not None:
                    return r2
        if isinstance(obj, tuple) and obj[0] == 'str':
            return self._str_load(obj[1], path, st)
        cands = []
        if v is not None:
            cands.append(v)
        must = False
        for k in (st.abs if not has_abs(path) else list(st.mem.keys())):
            if k[0] != obj or k == key or len(k[1]) != len(path):
                continue
            ok = True
            for a, b in zip(k[1], path):
                if self._match(st, a, b) is None:
                    ok = False
                    break
            if ok:
                cands.append(st.mem[k])
        if v is None:
            # default of the object (prefix defaults: longest prefix wins)
            d = None
            for n in range(len(path), -1, -1):
                d = st.mem.get((obj, path[:n] + ('$def',)))
                if d is not None:
                    break
            cands.append(d if d is not None else self.default_value(obj, path, t))
        out = cands[0]
        for c in cands[1:]:
            out = join(out, c, st.sym)
        return out

    def default_value(self, obj, path, t):
        # a pointer member that the constructor points at storage the object owns (declared by the rule module): the storage is
        # modelled as a pseudo-field of the same object, so that accesses stay attributed to the object
        hf = getattr(self, 'heap_fields', None)
        if hf and path and isinstance(path[-1], str) and path[-1] in hf:
            return P(obj, path[:-1] + (hf[path[-1]], 0))
        return TOP

    def enum_default(self, v, t):
        """Assumption: an object of enumeration type holds one of its enumerators."""
        if v == TOP and t and t.get('k') == 'enum':
            e = self.prog.enums.get(t.get('enum'))
            if e:
                return S(e['consts'].values())
        if v == TOP and t and t.get('k') == 'bool':
            return R(0, 1)
        return v

    def async_globals(self):
        """names of globals / static members assigned by a function installed as a signal handler (signal, std::signal,
        sigaction through a named function) or by what such a function calls"""
        c = getattr(self.prog, '_async_globals', None)
        if c is not None:
            return c
        prog = self.prog
        handlers = set()
        for f in prog.functions.values():
            for n in walk(f['body']):
                if n['k'] == 'CallExpr' and (n.get('callee', {}).get('q') or '') in ('signal', 'std::signal', 'bsd_signal', 'sigset'):
                    for a in n.get('args', [])[1:]:
                        for x in walk(a):
                            if x['k'] == 'DeclRefExpr' and x.get('dk') in ('Function', 'CXXMethod') and x.get('d') in prog.functions:
                                handlers.add(x['d'])
                if n['k'] == 'BinaryOperator' and n.get('op') == '=' and strip(n['lhs']).get('k') == 'MemberExpr' and strip(n['lhs']).get('m') in ('sa_handler', 'sa_sigaction'):
                    for x in walk(n['rhs']):
                        if x['k'] == 'DeclRefExpr' and x.get('dk') in ('Function', 'CXXMethod') and x.get('d') in prog.functions:
                            handlers.add(x['d'])
        seen, todo = set(), list(handlers)
        while todo:
            x = todo.pop()
            if x in seen or x not in prog.functions:
                continue
            seen.add(x)
            for n in walk(prog.functions[x]['body']):
                if n['k'] in ('CallExpr', 'CXXMemberCallExpr') and n.get('callee', {}).get('m'):
                    todo.append(n['callee']['m'])
        out = set()
        for x in seen:
            for n in walk(prog.functions[x]['body']):
                tgt = None
                if n['k'] in ('BinaryOperator', 'CompoundAssignOperator') and (n.get('op') == '=' or n['k'] == 'CompoundAssignOperator'):
                    tgt = strip(n['lhs'])
                elif n['k'] == 'UnaryOperator' and n.get('op') in ('++', '--'):
                    tgt = strip(n['e'])
                if tgt is not None and tgt.get('k') == 'DeclRefExpr' and tgt.get('glob') and str(tgt.get('d', '')).startswith('G:'):
                    out.add(tgt['d'][2:])
                if tgt is not None and tgt.get('k') == 'MemberExpr' and tgt.get('mk') == 'Var' and tgt.get('q'):
                    out.add(tgt['q'])
        prog._async_globals = out
        return out

    def _init_load(self, g, path):
        """Element of a constant aggregate (arrays of structs, function pointers, string pointers) read off its initialiser."""
        node, t = g['init'], self.prog.type(g['t'])
        for comp in path:
            while node is not None and node.get('k') in ('ImplicitCastExpr', 'ExprWithCleanups', 'CXXBindTemporaryExpr', 'ConstantExpr') and node.get('k') != 'InitListExpr':
                node = node.get('e') if 'e' in node else (node.get('c') or [None])[0]
            if node is None or node.get('k') != 'InitListExpr' or t is None:
                return None
            kids = node.get('c', [])
            if isinstance(comp, int) and t.get('k') == 'array':
                if not (0 <= comp < (t.get('n') or 0)):
                    self.oob.append((comp, t.get('n') or 0))
                    return None
                if comp >= len(kids):
                    return C(0) if self.prog.type(t.get('el')).get('k') in ('int', 'bool', 'enum') else None
                node, t = kids[comp], self.prog.type(t.get('el'))
            elif isinstance(comp, str) and t.get('k') == 'rec':
                rec = self.prog.records.get(t.get('rec'))
                if rec is None:
                    return None
                idx = next((i for i, f in enumerate(rec['fields']) if f['d'][2:] == comp), None)
                if idx is None or idx >= len(kids):
                    return None
                node, t = kids[idx], self.prog.type(rec['fields'][idx]['t'])
            else:
                return None
        while node is not None and node.get('k') in ('ImplicitCastExpr', 'ConstantExpr', 'CStyleCastExpr') and 'cv' not in node:
            node = node.get('e')
        if node is None:
            return None
        if 'cv' in node and isinstance(node['cv'], int):
            return C(node['cv'])
        if node.get('k') == 'DeclRefExpr' and node.get('dk') in ('Function', 'CXXMethod'):
            return ('fn', node['d'])
        if node.get('k') == 'UnaryOperator' and node.get('op') == '&':
            e = node.get('e')
            if e and e.get('k') == 'DeclRefExpr' and e.get('dk') in ('Function', 'CXXMethod'):
                return ('fn', e['d'])
        if node.get('k') == 'StringLiteral':
            return P(('str', node.get('s', '')), (0,))
        return None

    def _table_load(self, val, path, st):
        def rec(v, p):
            if not p:
                if isinstance(v, list):
                    return TOP
                return C(v) if isinstance(v, int) else TOP
            if not isinstance(v, list):
                return TOP
            i = p[0]
            if isinstance(i, int):
                if 0 <= i < len(v):
                    return rec(v[i], p[1:])
                self.oob.append((i, len(v)))
                return TOP
            if isinstance(i, tuple) and i and i[0] == 'tl' and len(p) == 1 and isinstance(v, list) and self.symbolic_tables \
                    and self.inverse_tables.get(self.symbolic_tables.get(id(v))) == i[1]:
                # hex_tab[b64_tab[x]] = x : the two tables are mutual inverses on the alphabet (checked by the table rule)
                return i[2]
            if isinstance(i, tuple) and i and i[0] in ('bf', 'shr', 'l') and len(p) == 1 and isinstance(v, list) \
                    and self.symbolic_tables and id(v) in self.symbolic_tables:
                ri = rng(i, st.sym)
                if ri is not None and 0 <= ri[0] and ri[1] < len(v):
                    return ('tl', self.symbolic_tables[id(v)], i)
            if isinstance(i, tuple) and is_int(i):
                r = rng(i, st.sym)
                lo, hi = (0, len(v) - 1) if r is None else (max(0, r[0]), min(len(v) - 1, r[1]))
                if r is not None and (r[0] < 0 or r[1] >= len(v)):
                    name, nd = getattr(self, '_tl_ctx', (None, None))
                    self.oob_may.append((name, i, r, len(v), nloc(nd) if nd else None))
                    return TOP
                out = None
                for j in range(lo, hi + 1):
                    x = rec(v[j], p[1:])
                    out = x if out is None else join(out, x, st.sym)
                    if out == TOP:
                        break
                return out if out is not None else TOP
            return TOP
        return rec(val, path)

    def _str_load(self, text, path, st):
        if len(path) == 1 and isinstance(path[0], int):
            b = text.encode('latin-1', 'replace') if isinstance(text, str) else text
            if 0 <= path[0] < len(b):
                return C(b[path[0]])
            if path[0] == len(b):
                return C(0)
        return TOP

    def store(self, st, loc, val, node=None, weak=False):
        if loc is None:
            return
        obj, path = loc
        if val[0] == 'r' and self.name_intervals and node is not None:
            # an interval computed by one evaluation denotes one unknown value: give it a (rigid) name.
            # The name is tied to the storing site; facts about the value the name denoted before are forgotten.
            ctx = self.frames[-1].ctx if self.frames else ()
            nm = '$n%d_%d' % (node.get('_id', 0), hash(ctx) % 100000)
            if nm in st.sym:
                self.purge_symbol(st, nm)
            st.sym[nm] = (val[1], val[2])
            val = sym(nm)
        self.emit('prestore', st, loc=loc, val=val, node=node)
        if any(isinstance(x, tuple) and x and x[0] == '$cast' for x in path):
            # store through a reinterpreting pointer: havoc the underlying array
            i = next(n for n, x in enumerate(path) if isinstance(x, tuple) and x and x[0] == '$cast')
            self.havoc(st, (obj, path[:i]))
            self.emit('store', st, loc=loc, val=val, node=node)
            return
        key = (obj, path)
        if concrete_path(path) and not weak:
            # strong update; abstract-keyed entries that may alias are weakened
            for k in st.abs:
                if k[0] == obj and len(k[1]) == len(path) and all(self._match(st, a, b) for a, b in zip(k[1], path)):
                    st.mem[k] = join(st.mem[k], val, st.sym)
            st.mem[key] = val
        else:
            for k in list(st.mem.keys()):
                if k[0] != obj or k == key or len(k[1]) != len(path):
                    continue
                if all(self._match(st, a, b) for a, b in zip(k[1], path)):
                    st.mem[k] = join(st.mem[k], val, st.sym)
            old = st.mem.get(key)
            if old is not None and weak:
                st.mem[key] = join(old, val, st.sym)
            else:
                st.mem[key] = val
        if has_abs(path) and key not in st.abs:
            st.abs = st.abs | {key}
        self.emit('store', st, loc=loc, val=val, node=node)

    def purge_symbol(self, st, nm):
        def mentions(v):
            if isinstance(v, tuple):
                if v and v[0] == 'l':
                    return any(sy == nm for sy, _ in v[2])
                return any(mentions(x) for x in v)
            return False
        for k in list(st.mem.keys()):
            if mentions(k[1]):
                del st.mem[k]
            elif mentions(st.mem[k]):
                st.mem[k] = TOP
        st.abs = frozenset(k for k in st.abs if k in st.mem)

    def havoc(self, st, loc, val=TOP):
        """Forget everything stored at loc and below."""
        obj, path = loc
        n = len(path)
        for k in list(st.mem.keys()):
            if k[0] == obj and k[1][:n] == path:
                del st.mem[k]
        st.abs = frozenset(k for k in st.abs if k in st.mem)
        st.mem[(obj, path + ('$def',))] = val

    def copy_object(self, st, src, dst):
        so, sp = src
        do, dp = dst
        n = len(sp)
        items = [(k, v) for k, v in st.mem.items() if k[0] == so and k[1][:n] == sp]
        for k in [k for k in st.mem if k[0] == do and k[1][:len(dp)] == dp]:
            del st.mem[k]
        for k, v in items:
            st.mem[(do, dp + k[1][n:])] = v

    # ----------------------------------------------------------- pointer ops
    def ptr_add(self, st, p, off, node=None):
        if p[0] != 'p':
            return p if p[0] == 'ptop' else ('ptop', 'arith', True)
        obj, path = p[1], p[2]
        if not path:
            if off == C(0):
                return p
            return ('ptop', 'arith-on-object', False)
        last = path[-1]
        if isinstance(last, tuple) and last and last[0] == '$cast':
            idx = last[2]
            nv = binop('+', C(idx) if isinstance(idx, int) else idx, off, st.sym)
            ni = nv[1] if nv[0] == 'c' else nv
            return P(obj, path[:-1] + (('$cast', last[1], ni),))
        if isinstance(last, str):
            if off == C(0):
                return p
            return ('ptop', 'arith-on-field', False)
        if last == 0 and off[0] in ('shr', 'bf', 'byte', 'tl'):
            return P(obj, path[:-1] + (off,))
        nv = binop('+', C(last) if isinstance(last, int) else last, off, st.sym)
        ni = nv[1] if nv[0] == 'c' else nv
        # a byte pointer walking through a two-dimensional member array: past the end of a row it is in the next row
        if isinstance(ni, int) and len(path) >= 3 and isinstance(path[-2], int) and isinstance(path[-3], str):
            d = self._inner_dim(path[-3])
            if d and (ni >= d or ni < 0):
                return P(obj, path[:-2] + (path[-2] + ni // d, ni % d))
        return P(obj, path[:-1] + (ni,))

    def _inner_dim(self, field):
        """row length of a two-dimensional array member (by its field id), or None"""
        c = getattr(self, '_inner_dims', None)
        if c is None:
            c = self._inner_dims = {}
            for r in self.prog.records.values():
                for f in r['fields']:
                    t = self.prog.type(f['t'])
                    el = self.prog.type(t['el']) if t.get('k') == 'array' and t.get('el') else None
                    if el and el.get('k') == 'array' and el.get('n'):
                        c[f['d'][2:]] = el['n']
        return c.get(field)

    def deref(self, st, p, node=None):
        if p[0] == 'p':
            return (p[1], p[2])
        if p[0] == 'null':
            self.emit('nullderef', st, node=node, val=p)
            return None
        if p[0] == 'ptop':
            if p[2]:
                self.emit('nullderef', st, node=node, val=p)
            return (('ext', p[1]), ())
        if p[0] == 'obj':
            return p[1]
        return None

    # ------------------------------------------------------------ expressions
    def ev(self, n, st, fr):
        """Evaluate rvalue expression n in state st: list of (state, value)."""
        self.stats['nodes'] += 1
        if n is None:
            return [(st, TOP)]
        k = n['k']
        if 'cv' in n and k not in ('CallExpr',):
            if not self.const_override or k in ('IntegerLiteral', 'CharacterLiteral', 'CXXBoolLiteralExpr', 'UnaryExprOrTypeTraitExpr'):
                return [(st, C(n['cv']))]
            if k == 'DeclRefExpr':
                if n.get('glob'):
                    ov = self.overridden_const(n['d'][2:], st, fr)
                    if ov is not None:
                        return [(st, ov)]
                return [(st, C(n['cv']))]
            if k == 'MemberExpr' and n.get('mk') == 'Var':
                ov = self.overridden_const(n.get('q'), st, fr)
                if ov is not None:
                    return [(st, ov)]
                return [(st, C(n['cv']))]
            # a folded constant may depend on an overridden global: evaluate structurally
        elif 'cvs' in n:
            return [(st, C(int(n['cvs'])))]
        elif 'fv' in n and k not in ('CallExpr',):
            return [(st, ('f', float(n['fv']), float(n['fv'])))]
        m = getattr(self, 'ev_' + k, None)
        if m is None:
            if n.get('lv'):
                return [(s, P(*l) if l else ('ptop', 'lv', False)) for s, l in self.lv(n, st, fr)]
            self.unknown(n, 'expr ' + k)
            return [(st, TOP)]
        return m(n, st, fr)

    def ev_list(self, nodes, st, fr, as_lv=None):
        """Evaluate several expressions left to right: list of (state, [values])."""
        res = [(st, [])]
        for i, a in enumerate(nodes):
            nxt = []
            for s, vals in res:
                if as_lv and as_lv[i]:
                    for s2, l in self.lv(a, s, fr):
                        nxt.append((s2, vals + [P(*l) if l else ('ptop', 'lv', False)]))
                else:
                    for s2, v in self.ev(a, s, fr):
                        nxt.append((s2, vals + [v]))
            res = nxt
        return res

    def ev_IntegerLiteral(self, n, st, fr):
        return [(st, C(n.get('cv', 0)))]
    ev_CharacterLiteral = ev_IntegerLiteral
    ev_CXXBoolLiteralExpr = ev_IntegerLiteral
    ev_UnaryExprOrTypeTraitExpr = ev_IntegerLiteral

    def ev_PredefinedExpr(self, n, st, fr):
        # __func__ / __PRETTY_FUNCTION__: some string
        return [(st, P(('str', self.frames[-1].fn['q'] if self.frames else '?'), (0,)))]

    def ev_FloatingLiteral(self, n, st, fr):
        return [(st, ('opaque', 'float'))]

    def ev_GNUNullExpr(self, n, st, fr):
        return [(st, NULL)]
    ev_CXXNullPtrLiteralExpr = ev_GNUNullExpr

    def ev_StringLiteral(self, n, st, fr):
        return [(st, P(('str', n.get('s', '')), ()))]

    def ev_CXXThisExpr(self, n, st, fr):
        if fr.this is None:
            return [(st, ('ptop', 'this', False))]
        return [(st, st.mem.get(fr.this, ('ptop', 'this', False)))]

    def ev_DeclRefExpr(self, n, st, fr):
        dk = n.get('dk')
        if dk == 'EnumConstant':
            return [(st, C(n.get('cv', 0)))]
        if dk in ('Function', 'CXXMethod'):
            return [(st, ('fn', n['d']))]
        return [(s, P(*l) if l else ('ptop', 'lv', False)) for s, l in self.lv(n, st, fr)]

    def ev_CXXThrowExpr(self, n, st, fr):
        # the path ends here (handlers of an enclosing try are entered from the state at the try: ex_CXXTryStmt)
        self.emit('throw', st, node=n)
        self.thrown.append((nloc(n), tuple(str(x) for x in st.trace[-4:])))
        return []

    def ev_LambdaExpr(self, n, st, fr):
        return [(st, ('opaque', 'lambda', n.get('op')))]

    def ev_ExprWithCleanups(self, n, st, fr):
        return self.ev(n['c'][0], st, fr)
    ev_CXXBindTemporaryExpr = ev_ExprWithCleanups

    def ev_MaterializeTemporaryExpr(self, n, st, fr):
        return [(s, P(*l) if l else TOP) for s, l in self.lv(n, st, fr)]

    def ev_InitListExpr(self, n, st, fr):
        return [(st, ('opaque', 'initlist'))]

    def ev_CXXStdInitializerListExpr(self, n, st, fr):
        return [(st, ('opaque', 'initlist'))]

    def ev_ImplicitValueInitExpr(self, n, st, fr):
        return [(st, C(0))]

    def ev_CXXScalarValueInitExpr(self, n, st, fr):
        return [(st, C(0))]

    # casts ---------------------------------------------------------------
    def ev_ImplicitCastExpr(self, n, st, fr):
        ck = n['ck']
        e = n['e']
        if ck == 'LValueToRValue':
            out = []
            for s, l in self.lv(e, st, fr):
                self.emit('preload', s, loc=l, node=n)
                v = self.load(s, l, self.T(n), node=n)
                if v == UNINIT and (self.T(n) or {}).get('k') in ('int', 'ptr', 'bool', 'enum'):
                    self.uninit_reads.append((l, nloc(n)))
                v = self.enum_default(v, self.T(n))
                self.emit('load', s, loc=l, val=v, node=n)
                out.append((s, v))
            return out
        if ck == 'ArrayToPointerDecay':
            out = []
            for s, l in self.lv(e, st, fr):
                if l is None:
                    out.append((s, ('ptop', 'decay', False)))
                else:
                    out.append((s, P(l[0], l[1] + (0,))))
            return out
        if ck in ('NoOp', 'FunctionToPointerDecay', 'ConstructorConversion', 'UserDefinedConversion',
                  'DerivedToBase', 'UncheckedDerivedToBase', 'BaseToDerived', 'BuiltinFnToFnPtr', 'Dependent'):
            if e.get('lv') and n.get('lv'):
                return [(s, P(*l) if l else ('ptop', 'lv', False)) for s, l in self.lv(e, st, fr)]
            return self.ev(e, st, fr)
        if ck == 'BitCast':
            out = []
            for s, v in self.ev(e, st, fr):
                out.append((s, self.bitcast(s, v, self.T(e), self.T(n))))
            return out
        if ck in ('IntegralCast', 'IntegralToBoolean', 'BooleanToSignedIntegral'):
            t = self.T(n)
            out = []
            for s, v in self.ev(e, st, fr):
                if ck == 'IntegralToBoolean':
                    tv = truth(v, s.sym)
                    out.append((s, R(0, 1) if tv is None else C(1 if tv else 0)))
                else:
                    r_ = fit(v, t, s.sym) if is_int(v) else (v if v[0] == 'uninit' else TOP)
                    if v[0] == 'c' and r_ != v and v[1] >= 0 and n['k'] == 'ImplicitCastExpr' and t and t.get('k') != 'bool':
                        # a computed non-negative constant that an implicit conversion cannot keep (high bits lost)
                        cw = (nloc(n), self.frames[-1].fn['q'] if self.frames else '?', v[1], r_[1] if r_[0] == 'c' else None, t.get('bits'), bool(t.get('sg')))
                        if cw not in self.const_wraps:
                            self.const_wraps.append(cw)
                    # a number typed by the user that is cut down to a narrower type is still "that number, as the narrower type
                    # sees it": keep a name for it (validation rules look for the name), with the range of the target type
                    if is_int(v) and v[0] == 'l' and v[1] == 0 and len(v[2]) == 1 and v[2][0][1] == 1 and str(v[2][0][0]).startswith('$atoi') \
                            and not (r_[0] == 'l' and any(sy == v[2][0][0] for sy, _ in r_[2])):
                        tr_ = type_range(t) if t else None
                        if tr_ is not None:
                            nm_ = '%s>%s' % (v[2][0][0], (t or {}).get('bits'))
                            s.sym.setdefault(nm_, tr_)
                            r_ = sym(nm_)
                    if is_int(v) and v[0] == 'l' and v[2] and r_ == TOP and t and t.get('bits') and t.get('k') != 'bool':
                        r_ = self._name_truncation(s, v, t, n, r_)
                    out.append((s, r_))
            return out
        if ck == 'PointerToBoolean':
            out = []
            for s, v in self.ev(e, st, fr):
                tv = truth(v, s.sym)
                out.append((s, R(0, 1) if tv is None else C(1 if tv else 0)))
            return out
        if ck == 'NullToPointer':
            return [(st, NULL)]
        if ck == 'ToVoid':
            return [(s, TOP) for s, v in self.ev(e, st, fr)]
        if ck in ('IntegralToFloating', 'FloatingCast', 'FloatingToIntegral', 'FloatingToBoolean'):
            out = []
            for s, v in self.ev(e, st, fr):
                if ck == 'IntegralToFloating':
                    r_ = rng(v, s.sym, self.T(e)) if is_int(v) else None
                    if r_ is None and is_int(v):
                        r_ = type_range(self.T(e))
                    out.append((s, ('f', float(r_[0]), float(r_[1])) if r_ is not None else ('opaque', 'float')))
                elif ck == 'FloatingCast':
                    out.append((s, v if v[0] == 'f' else ('opaque', 'float')))
                elif ck == 'FloatingToIntegral':
                    t_ = self.T(n)
                    tr_ = type_range(t_) if t_ else None
                    if v[0] == 'f' and tr_ is not None:
                        if v[1] == v[1] and v[2] == v[2] and v[1] > tr_[0] - 1 and v[2] < tr_[1] + 1:
                            lo_, hi_ = int(v[1]), int(v[2])
                            out.append((s, C(lo_) if lo_ == hi_ else R(lo_, hi_)))
                        else:
                            # [conv.fpint]: the behaviour is undefined if the truncated value cannot be represented in the destination type
                            w_ = (nloc(n), self.frames[-1].fn['q'] if self.frames else '?', v[1], v[2], t_.get('bits'), bool(t_.get('sg')))
                            if w_ not in self.float_conv:
                                self.float_conv.append(w_)
                            out.append((s, TOP))
                    else:
                        out.append((s, TOP))
                else:
                    out.append((s, R(0, 1)))
            return out
        if ck in ('IntegralToPointer',):
            return [(s, ('ptop', 'int2ptr', True)) for s, v in self.ev(e, st, fr)]
        if ck in ('PointerToIntegral',):
            return [(s, TOP) for s, v in self.ev(e, st, fr)]
        self.unknown(n, 'cast ' + ck)
        return [(s, TOP) for s, v in self.ev(e, st, fr)]

    ev_CStyleCastExpr = ev_ImplicitCastExpr
    ev_CXXStaticCastExpr = ev_ImplicitCastExpr
    ev_CXXFunctionalCastExpr = ev_ImplicitCastExpr
    ev_CXXReinterpretCastExpr = ev_ImplicitCastExpr
    ev_CXXConstCastExpr = ev_ImplicitCastExpr

    def bitcast(self, st, v, tfrom, tto):
        if v[0] != 'p':
            return v
        try:
            pf = self.prog.type(tfrom['to']) if tfrom and tfrom.get('k') == 'ptr' else None
            pt = self.prog.type(tto['to']) if tto and tto.get('k') == 'ptr' else None
        except Exception:
            return v
        if not pf or not pt:
            return v
        if pt.get('k') in ('void',) or pf.get('k') in ('void',):
            return v
        if pt.get('k') == 'rec':
            # pointer to the first member array of a union/record -> pointer to the record
            path = v[2]
            if len(path) >= 2 and path[-1] == 0 and isinstance(path[-2], str):
                recq = path[-2].rsplit('::', 1)[0]
                if recq == pt.get('rec') or recq.startswith(pt.get('rec', '\0') + '::'):
                    return P(v[1], path[:-2])
            return v
        sf, sto = pf.get('size'), pt.get('size')
        if sf == sto or sto is None or sf is None:
            return v
        if pt.get('k') in ('int', 'bool', 'enum') and sto == 1:
            return v            # byte view of anything: element accesses fall back to TOP
        path = v[2]
        if path and isinstance(path[-1], int):
            return P(v[1], path[:-1] + (('$cast', sto, 0), )) if path[-1] == 0 else P(v[1], path[:-1] + (('$cast', sto, ('castoff', path[-1])),))
        return P(v[1], path + (('$cast', sto, 0),))

    # operators -------------------------------------------------------------
    def ev_UnaryOperator(self, n, st, fr):
        op = n['op']
        e = n['e']
        t = self.T(n)
        if op in ('++', '--'):
            out = []
            for s, l in self.lv(e, st, fr):
                old = self.load(s, l, self.T(e), node=n)
                self.emit('load', s, loc=l, val=old, node=n)
                if is_ptr(old):
                    new = self.ptr_add(s, old, C(1 if op == '++' else -1))
                else:
                    new = fit(binop('+' if op == '++' else '-', old, C(1), s.sym), self.T(e), s.sym)
                self.store(s, l, new, node=n)
                out.append((s, old if n.get('postfix') else new))
            return out
        if op == '&':
            return [(s, P(*l) if l else ('ptop', 'addr', False)) for s, l in self.lv(e, st, fr)]
        if op == '*':
            out = []
            for s, l in self.lv(n, st, fr):
                out.append((s, P(*l) if l else ('ptop', 'deref', False)))
            return out
        out = []
        for s, v in self.ev(e, st, fr):
            if op == '!':
                tv = truth(v, s.sym)
                out.append((s, R(0, 1) if tv is None else C(0 if tv else 1)))
            elif op == '-':
                out.append((s, fit(binop('-', C(0), v, s.sym), t, s.sym) if is_int(v) else TOP))
            elif op == '+':
                out.append((s, v))
            elif op == '~':
                if v[0] == 'c':
                    out.append((s, fit(C(~v[1]), t, s.sym)))
                else:
                    out.append((s, TOP))
            else:
                self.unknown(n, 'unary ' + op)
                out.append((s, TOP))
        return out

    def cond(self, n, st, fr):
        """Evaluate n as a branch condition: list of (state, True/False) with refinement."""
        n0 = n
        k = n['k']
        if k == 'UnaryOperator' and n['op'] == '!':
            return [(s, not b) for s, b in self.cond(n['e'], st, fr)]
        if k == 'BinaryOperator' and n['op'] == '&&':
            out = []
            for s, b in self.cond(n['lhs'], st, fr):
                if not b:
                    out.append((s, False))
                else:
                    out += self.cond(n['rhs'], s, fr)
            return out
        if k == 'BinaryOperator' and n['op'] == '||':
            out = []
            for s, b in self.cond(n['lhs'], st, fr):
                if b:
                    out.append((s, True))
                else:
                    out += self.cond(n['rhs'], s, fr)
            return out
        if k in ('ImplicitCastExpr',) and n['ck'] in ('IntegralToBoolean', 'PointerToBoolean', 'NoOp', 'IntegralCast') \
                and 'cv' not in n:
            inner = n['e']
            if n['ck'] in ('IntegralToBoolean', 'PointerToBoolean'):
                return self._cond_value(inner, st, fr, n0)
            return self.cond(inner, st, fr)
        if k in ('ExprWithCleanups',):
            return self.cond(n['c'][0], st, fr)
        if k == 'BinaryOperator' and n['op'] in ('==', '!=', '<', '<=', '>', '>='):
            out = []
            for s, (a, b) in [(s, v) for s, v in self.ev_list([n['lhs'], n['rhs']], st, fr)]:
                c = compare(n['op'], a, b, s.sym, self.T(n['lhs']))
                if c is not None:
                    out.append((s, c))
                    continue
                part = self._lookup_partition(s, fr, n['lhs'], b, n['op']) if b[0] == 'c' else (
                    self._lookup_partition(s, fr, n['rhs'], a, FLIP[n['op']]) if a[0] == 'c' else None)
                if part is not None:
                    symname, tset, fset = part
                    for truthv, ss in ((True, tset), (False, fset)):
                        if ss:
                            s2 = s.copy()
                            s2.sym[symname] = (min(ss), max(ss))
                            s2.note((nloc(n), truthv))
                            out.append((s2, truthv))
                    continue
                self.stats['forks'] += 1
                self._trunc_decision(s, n, a, b)
                for truthv in (True, False):
                    s2 = s.copy()
                    ok = self.refine(s2, fr, n['lhs'], n['rhs'], a, b, n['op'] if truthv else NEG[n['op']])
                    if ok:
                        s2.note((nloc(n), truthv))
                        out.append((s2, truthv))
            return out
        return self._cond_value(n, st, fr, n0)

    def _name_truncation(self, s, v, t, n, r_, arith=False):
        """v (linear over named symbols) is converted to a type that cannot hold its whole range: the result is 'v as the type
        sees it', a named unknown with the range of the type.  Narrowing ones (fewer bits than the source computation, or a
        sign change) are remembered so that a rule can ask whether such a value ever decided a branch; a wrap inside unsigned
        arithmetic of the same width (a - b in size_t) is named too but is never reported by itself."""
        if any(str(sy).startswith('$') and not str(sy).startswith(TRUNC_SOURCES) for sy, _ in v[2]):
            # only quantities that come from outside (sizes, counts, numbers typed by the user, generator values) or that a rule
            # introduced by name are followed through a conversion; interpreter-made unknowns (widened loop values, named
            # intervals, invariants) have no range of their own and naming their conversion only costs precision elsewhere
            return r_
        vr = rng(v, s.sym, None)
        tr_ = type_range(t)
        if vr is None or tr_ is None or (tr_[0] <= vr[0] and vr[1] <= tr_[1]):
            return r_
        et = self.T(n.get('e')) if isinstance(n.get('e'), dict) and not arith else None
        sb = (et or {}).get('bits') or 64
        if arith:
            # the arithmetic itself leaves the type: modular for unsigned types, undefined (in practice a wrap) for signed ones
            et, sb = {'bits': t['bits'], 'sg': False}, t['bits']
        chained = any(str(sy).startswith('$tr') and dict(s.comps.get(('trunc', sy)) or ()).get('narrowing') for sy, _ in v[2])
        narrowing = t['bits'] < sb or (t['bits'] == sb and bool(t.get('sg')) != bool((et or {}).get('sg')) and t.get('sg')) or chained
        nm = '$tr%s' % n.get('_id')
        roots = set()
        for sy, _ in v[2]:
            up = dict(s.comps.get(('trunc', sy)) or ()) if str(sy).startswith('$tr') else None
            roots |= set(up['syms']) if up else {str(sy)}
        expr = show(v)
        for sy, _ in v[2]:
            up = dict(s.comps.get(('trunc', sy)) or ()) if str(sy).startswith('$tr') else None
            if up:
                expr = expr.replace(str(sy), '<%s as %d-bit %s>' % (up['expr'], up['bits'], 'signed' if up['signed'] else 'unsigned'))
        info = {'where': nloc(n), 'fn': self.frames[-1].fn['q'] if self.frames else '?', 'expr': expr, 'range': vr, 'syms': tuple(sorted(roots)),
                'bits': t['bits'], 'signed': bool(t.get('sg')), 'narrowing': narrowing, 'arith': arith}
        s.sym[nm] = tr_
        s.comps[('trunc', nm)] = tuple(sorted(info.items()))
        if info not in self.truncs:
            self.truncs.append(info)
        return sym(nm)

    def _trunc_decision(self, s, n, a, b):
        for x in (a, b):
            if is_int(x) and x[0] == 'l':
                for sy, _ in x[2]:
                    info = dict(s.comps.get(('trunc', sy)) or ()) if str(sy).startswith('$tr') else None
                    if info and info['narrowing']:
                        d = dict(info, decided_at=nloc(n), decided_in=self.frames[-1].fn['q'] if self.frames else '?')
                        if d not in self.trunc_decisions:
                            self.trunc_decisions.append(d)
                        s.comps[('trdec', sy)] = nloc(n)

    def _fn_table_split(self, fnode, s, fr):
        lvn = self._lvalue_of_rvalue(fnode)
        if lvn is None or lvn.get('k') != 'ArraySubscriptExpr':
            return None
        snap = s.copy()
        r = self.ev_list([lvn['base'], lvn['idx']], snap, fr)
        if len(r) != 1:
            return None
        s1, (bv, iv) = r[0]
        if not (is_ptr(bv) and bv[0] == 'p' and is_int(iv)):
            return None
        sy = None
        if iv[0] == 'l' and iv[1] == 0 and len(iv[2]) == 1 and iv[2][0][1] == 1:
            sy = iv[2][0][0]
            rr = s1.sym.get(sy)
            if rr is None or rr[1] - rr[0] > 15:
                return None
            values = list(range(rr[0], rr[1] + 1))
        else:
            sv = setof(iv)
            if sv is None or len(sv) > 16:
                return None
            values = sorted(sv)
        ivl = self._lvalue_of_rvalue(lvn['idx']) if isinstance(lvn.get('idx'), dict) else None
        out = []
        for i in values:
            si = s.copy()
            if sy is not None:
                si.sym[sy] = (i, i)
            elif ivl is not None:
                ls = self.lv(ivl, si, fr)
                if len(ls) == 1 and ls[0][1] is not None and ls[0][0] is si:
                    si.mem[ls[0][1]] = C(i)
            last = bv[2][-1] if bv[2] and isinstance(bv[2][-1], int) else None
            if last is None:
                return None
            fv = self.load(si, (bv[1], bv[2][:-1] + (last + i,)))
            if fv is None or fv[0] != 'fn':
                return None
            si.note((nloc(fnode), 'table[%d]' % i))
            out.append((si, fv))
        return out

    def _lookup_partition(self, s, fr, vn, const, op):
        """vn is a load table[x] of a fully known constant table with x one ranged symbol: the sets of values of x for which
        (table[x] op const) holds / does not hold.  Lets a predicate written as a table test refine its argument."""
        lvn = self._lvalue_of_rvalue(vn)
        if lvn is None or lvn.get('k') != 'ArraySubscriptExpr':
            return None
        snap = s.copy()
        r = self.ev_list([lvn['base'], lvn['idx']], snap, fr)
        if len(r) != 1:
            return None
        s1, (bv, iv) = r[0]
        if not (is_ptr(bv) and bv[0] == 'p' and iv[0] == 'l' and iv[1] == 0 and len(iv[2]) == 1 and iv[2][0][1] == 1):
            return None
        symname = iv[2][0][0]
        rr = s.sym.get(symname)
        if rr is None or rr[1] - rr[0] > 4096 or not bv[2] or not isinstance(bv[2][-1], int):
            return None
        tset, fset = [], []
        n_oob = len(self.oob)
        for x in range(rr[0], rr[1] + 1):
            v = self.load(s1, (bv[1], bv[2][:-1] + (bv[2][-1] + x,)))
            c = compare(op, v, const, s1.sym) if v is not None and v[0] == 'c' else None
            if c is None:
                del self.oob[n_oob:]        # not a fully known table over this range: the ordinary load reports what it has to
                return None
            (tset if c else fset).append(x)
        return symname, tset, fset

    def _cond_value(self, n, st, fr, n0):
        out = []
        for s, v in self.ev(n, st, fr):
            tv = truth(v, s.sym)
            if tv is not None:
                out.append((s, tv))
                continue
            part = self._lookup_partition(s, fr, n, C(0), '!=')
            if part is not None:
                symname, tset, fset = part
                for truthv, ss in ((True, tset), (False, fset)):
                    if ss:
                        s2 = s.copy()
                        s2.sym[symname] = (min(ss), max(ss))
                        s2.note((nloc(n0), truthv))
                        out.append((s2, truthv))
                continue
            self.stats['forks'] += 1
            for truthv in (True, False):
                s2 = s.copy()
                zero = NULL if is_ptr(v) else C(0)
                ok = self.refine(s2, fr, n, None, v, zero, '!=' if truthv else '==')
                if ok:
                    s2.note((nloc(n0), truthv))
                    out.append((s2, truthv))
        return out

    def _lvalue_of_rvalue(self, n):
        """If rvalue node n is just a load of an lvalue (through value-preserving casts) return that lvalue node."""
        while isinstance(n, dict):
            k = n['k']
            if k == 'ImplicitCastExpr' and n['ck'] == 'LValueToRValue':
                return n['e']
            if k in ('ImplicitCastExpr', 'CStyleCastExpr', 'CXXStaticCastExpr') and n['ck'] in ('IntegralCast', 'NoOp'):
                # only widening casts preserve the value
                tf, tt = self.T(n['e']), self.T(n)
                if tf and tt and tf.get('bits') and tt.get('bits') and tt['bits'] >= tf['bits']:
                    n = n['e']
                    continue
                return None
            return None
        return None

    def refine(self, st, fr, ln, rn, a, b, op):
        """Refine st under (a op b); False when the branch is infeasible."""
        # pointer refinement
        if is_ptr(a) or is_ptr(b):
            if is_ptr(b) and not is_ptr(a):
                a, b, ln, rn = b, a, rn, ln
            if a[0] == 'ptop' and (b[0] == 'null' or b == C(0)):
                lvn = self._lvalue_of_rvalue(ln) if ln else None
                newv = NULL if op == '==' else ('ptop', a[1], False)
                if lvn is not None:
                    for s2, l in self.lv(lvn, st, fr):
                        if l is not None and s2 is st:
                            st.mem[l] = newv
                return True
            return True
        if not (is_int(a) and is_int(b)):
            return True
        # equality facts between byte symbols (used by comparison-completeness rules)
        if op == '==':
            pa_, pb_ = pure_byte_sym(a, st.sym), pure_byte_sym(b, st.sym)
            if pa_ and pb_ and pa_ != pb_:
                st.comps['eq'] = st.comps.get('eq', frozenset()) | {tuple(sorted((pa_, pb_)))}
            for x, y in ((a, b), (b, a)):
                if x[0] == 'ox' and y == C(0):
                    st.comps['eq'] = st.comps.get('eq', frozenset()) | x[1]
        if a[0] in ('xk', 'ox') or b[0] in ('xk', 'ox'):
            return True
        # symbolic single-symbol refinement
        d = add(a, b, st.sym, -1)
        if d[0] == 'l' and len(d[2]) == 1:
            (s, c), = d[2]
            k0 = d[1]
            r = st.sym.get(s)
            if r is not None and c in (1, -1):
                lo, hi = r
                # c*s + k0 op 0
                if c == -1:
                    op = FLIP[op]
                    k0 = -k0
                # s - k0' op 0 with k0' = -k0  -> s op -k0
                bound = -k0
                if op == '==':
                    lo, hi = max(lo, bound), min(hi, bound)
                elif op == '<':
                    hi = min(hi, bound - 1)
                elif op == '<=':
                    hi = min(hi, bound)
                elif op == '>':
                    lo = max(lo, bound + 1)
                elif op == '>=':
                    lo = max(lo, bound)
                elif op == '!=':
                    if lo == bound: lo += 1
                    if hi == bound: hi -= 1
                if lo > hi:
                    return False
                st.sym[s] = (lo, hi)
                return True
        # pure symbol against a ranged value: interval refinement of the symbol
        for (x, y, o) in ((a, b, op), (b, a, FLIP[op])):
            if x[0] == 'l' and len(x[2]) == 1 and x[2][0][1] == 1 and x[1] == 0 and x[2][0][0] in st.sym:
                ry = rng(y, st.sym)
                if ry is None or (y[0] == 'l' and any(sy == x[2][0][0] for sy, _ in y[2])):
                    continue
                lo, hi = st.sym[x[2][0][0]]
                if o == '<': hi = min(hi, ry[1] - 1)
                elif o == '<=': hi = min(hi, ry[1])
                elif o == '>': lo = max(lo, ry[0] + 1)
                elif o == '>=': lo = max(lo, ry[0])
                elif o == '==': lo, hi = max(lo, ry[0]), min(hi, ry[1])
                if lo > hi:
                    return False
                st.sym[x[2][0][0]] = (lo, hi)
        # refine a memory location holding a set / interval / TOP against a constant
        for (x, y, xn, o) in ((a, b, ln, op), (b, a, rn, FLIP[op])):
            if y[0] != 'c' or xn is None:
                continue
            lvn = self._lvalue_of_rvalue(xn)
            if lvn is None:
                continue
            t = self.T(lvn)
            r = rng(x, st.sym, t)
            cval = y[1]
            newv = None
            sx = setof(x)
            if sx is not None:
                keep = {v for v in sx if _cmpc(o, v, cval)}
                if not keep:
                    return False
                newv = S(keep)
            elif r is not None:
                lo, hi = r
                if o == '==': lo, hi = max(lo, cval), min(hi, cval)
                elif o == '<': hi = min(hi, cval - 1)
                elif o == '<=': hi = min(hi, cval)
                elif o == '>': lo = max(lo, cval + 1)
                elif o == '>=': lo = max(lo, cval)
                elif o == '!=':
                    if lo == cval: lo += 1
                    if hi == cval: hi -= 1
                if lo > hi:
                    return False
                newv = R(lo, hi)
            if newv is not None and x[0] != 'l':
                locs = self.lv(lvn, st, fr)
                if len(locs) == 1 and locs[0][0] is st and locs[0][1] is not None and concrete_path(locs[0][1][1]):
                    st.mem[locs[0][1]] = newv
            return True
        return True

    def ev_BinaryOperator(self, n, st, fr):
        op = n['op']
        t = self.T(n)
        if op == '=':
            out = []
            for s, v in self.ev(n['rhs'], st, fr):
                for s2, l in self.lv(n['lhs'], s, fr):
                    self.assign(s2, l, v, self.T(n['lhs']), node=n)
                    out.append((s2, v))
            return out
        if op == ',':
            out = []
            for s, _ in self.ev(n['lhs'], st, fr):
                out += self.ev(n['rhs'], s, fr)
            return out
        if op in ('&&', '||', '==', '!=', '<', '<=', '>', '>='):
            return [(s, C(1 if b else 0)) for s, b in self.cond(n, st, fr)]
        out = []
        for s, (a, b) in self.ev_list([n['lhs'], n['rhs']], st, fr):
            out.append((s, self.arith(s, op, a, b, t, n)))
        return out

    def arith(self, s, op, a, b, t, n=None):
        if is_ptr(a) and is_int(b) and op in ('+', '-'):
            return self.ptr_add(s, a, b if op == '+' else binop('-', C(0), b, s.sym))
        if is_int(a) and is_ptr(b) and op == '+':
            return self.ptr_add(s, b, a)
        if is_ptr(a) and is_ptr(b) and op == '-':
            if a[0] == 'p' and b[0] == 'p' and a[1] == b[1] and a[2][:-1] == b[2][:-1] and a[2] and b[2]:
                x, y = a[2][-1], b[2][-1]
                if not isinstance(x, str) and not isinstance(y, str):
                    return binop('-', C(x) if isinstance(x, int) else x, C(y) if isinstance(y, int) else y, s.sym)
            return TOP
        if a[0] == 'f' and b[0] == 'f':
            return float_arith(op, a, b)
        if a[0] in ('f', 'opaque') or b[0] in ('f', 'opaque'):
            return ('opaque', 'float') if (t or {}).get('k') == 'float' else TOP
        if not is_int(a) or not is_int(b):
            return TOP
        raw = binop(op, a, b, s.sym, t)
        r_ = fit(raw, t, s.sym)
        if r_ == TOP and n is not None and is_int(raw) and raw[0] == 'l' and raw[2] and t and t.get('bits') and t.get('k') != 'bool':
            r_ = self._name_truncation(s, raw, t, n, r_, arith=True)
        return r_

    def ev_CompoundAssignOperator(self, n, st, fr):
        op = n['op'][:-1]
        out = []
        for s, rv in self.ev(n['rhs'], st, fr):
            for s2, l in self.lv(n['lhs'], s, fr):
                old = self.load(s2, l, self.T(n['lhs']), node=n)
                self.emit('load', s2, loc=l, val=old, node=n)
                ct = self.T(n.get('ct')) if n.get('ct') else self.T(n['lhs'])
                if is_ptr(old):
                    new = self.arith(s2, op, old, rv, ct, n)
                else:
                    new = self.arith(s2, op, fit(old, ct, s2.sym) if is_int(old) else old, rv, ct, n)
                    new = fit(new, self.T(n['lhs']), s2.sym) if is_int(new) else new
                self.store(s2, l, new, node=n)
                out.append((s2, new))
        return out

    def ev_ConditionalOperator(self, n, st, fr):
        if getattr(self, 'join_conditionals', False) and (self.T(n) or {}).get('k') in ('int', 'bool', 'enum'):
            # effect analyses that do not care which arm is taken: one state, the join of the two integer values
            # (both arms are evaluated, so listeners see the reads of both)
            f0 = self.stats['forks']
            outs = self.cond(n['cond'], st.copy(), fr)
            self.stats['forks'] = f0        # a probe, not a decision of the path
            if len(outs) == 2 and outs[0][1] != outs[1][1]:
                ra = self.ev(n['then'], st, fr)
                if len(ra) == 1:
                    rb = self.ev(n['else'], ra[0][0], fr)
                    if len(rb) == 1 and is_int(ra[0][1]) and is_int(rb[0][1]):
                        return [(rb[0][0], join(ra[0][1], rb[0][1], rb[0][0].sym))]
        out = []
        for s, b in self.cond(n['cond'], st, fr):
            out += self.ev(n['then'] if b else n['else'], s, fr)
        return out

    def ev_ArraySubscriptExpr(self, n, st, fr):
        return [(s, P(*l) if l else ('ptop', 'lv', False)) for s, l in self.lv(n, st, fr)]
    ev_MemberExpr = ev_ArraySubscriptExpr

    def assign(self, st, l, v, t, node=None):
        if v[0] == 'obj':
            if l is not None:
                self.copy_object(st, v[1], l)
                self.emit('store', st, loc=l, val=v, node=node)
            return
        if t and t.get('k') == 'rec' and v[0] == 'p' and node is not None and node.get('k') == 'BinaryOperator':
            # struct assignment a = b where rhs evaluated as lvalue pointer
            if l is not None:
                self.copy_object(st, (v[1], v[2]), l)
            return
        self.store(st, l, v, node=node)

    # ---------------------------------------------------------------- lvalues
    def lv(self, n, st, fr):
        """Evaluate lvalue expression n: list of (state, loc)."""
        self.stats['nodes'] += 1
        k = n['k']
        if k == 'DeclRefExpr':
            d = n['d']
            if n.get('glob') and not n.get('staticlocal'):
                return [(st, ('G:' + d[2:] if d.startswith('G:') else d, ()))]
            if n.get('staticlocal'):
                return [(st, (('SL', d), ()))]
            l = fr.vars.get(d)
            if l is None:
                l = fr.local(d)
            t = self.T(n)
            dt = self._decl_is_ref.get(d)
            if dt:
                p = st.mem.get(l)
                if p is None:
                    return [(st, (('ext', 'ref:' + d), ()))]
                return [(st, self.deref(st, p, n))]
            return [(st, l)]
        if k == 'MemberExpr':
            base = n['base']
            mk = n.get('mk')
            if mk == 'Var':
                return [(st, ('G:' + n['q'], ()))]
            if mk != 'Field':
                self.unknown(n, 'member kind %s' % mk)
                return [(st, None)]
            outs = []
            bt = self.T(base)
            if n.get('arrow') or (bt and bt.get('k') == 'ptr'):
                for s, p in self.ev(base, st, fr):
                    outs.append((s, self.deref(s, p, n)))
            else:
                outs = self.lv(base, st, fr)
            res = []
            isref = (n['rec'] + '::' + n['m']) in self.ref_fields()
            for s, l in outs:
                if l is None:
                    res.append((s, None))
                elif n.get('anon'):
                    res.append((s, l))
                else:
                    fl = (l[0], l[1] + (n['rec'] + '::' + n['m'],))
                    # array-of-structs seen as parallel arrays: element i's member m of the split array lives in the m-th array
                    sp = getattr(self, 'split_fields', None)
                    if sp and fl[0] == sp['obj'] and len(fl[1]) == 2 and fl[1][1] in sp['map']:
                        fl = (sp['map'][fl[1][1]], fl[1][:1])
                    if isref:
                        pv = s.mem.get(fl)
                        res.append((s, self.deref(s, pv, n) if pv is not None else (('ext', 'reffield:' + n['m']), ())))
                    else:
                        res.append((s, fl))
            return res
        if k == 'ArraySubscriptExpr':
            res = []
            for s, (b, i) in self.ev_list([n['base'], n['idx']], st, fr):
                if is_int(b) and is_ptr(i):
                    b, i = i, b
                hook = getattr(self, 'index_hook', None)
                if hook is not None:
                    i = hook(self, s, fr, b, i, n)
                p = self.ptr_add(s, b, i, n)
                res.append((s, self.deref(s, p, n)))
            return res
        if k == 'UnaryOperator':
            if n['op'] == '*':
                return [(s, self.deref(s, p, n)) for s, p in self.ev(n['e'], st, fr)]
            if n['op'] in ('++', '--'):
                out = []
                for s, v in self.ev_UnaryOperator(n, st, fr):
                    out += self.lv(n['e'], s, fr)
                return out
            if n['op'] in ('__real', '__imag', '__extension__'):
                return self.lv(n['e'], st, fr)
        if k in ('ImplicitCastExpr', 'CStyleCastExpr', 'CXXStaticCastExpr', 'CXXConstCastExpr', 'CXXFunctionalCastExpr'):
            if n['ck'] in ('NoOp', 'DerivedToBase', 'UncheckedDerivedToBase', 'BaseToDerived', 'LValueBitCast'):
                return self.lv(n['e'], st, fr)
        if k in ('CallExpr', 'CXXMemberCallExpr', 'CXXOperatorCallExpr'):
            return [(s, self.deref(s, v, n) if is_ptr(v) or v[0] == 'obj' else None) for s, v in self.call(n, st, fr)]
        if k in ('BinaryOperator', 'CompoundAssignOperator'):
            if n['op'] == ',':
                out = []
                for s, _ in self.ev(n['lhs'], st, fr):
                    out += self.lv(n['rhs'], s, fr)
                return out
            out = []
            for s, v in self.ev(n, st, fr):
                out += self.lv(n['lhs'], s, fr)
            return out
        if k == 'ConditionalOperator':
            out = []
            for s, b in self.cond(n['cond'], st, fr):
                out += self.lv(n['then'] if b else n['else'], s, fr)
            return out
        if k == 'StringLiteral':
            return [(st, (('str', n.get('s', '')), ()))]
        if k in ('MaterializeTemporaryExpr', 'ExprWithCleanups', 'CXXBindTemporaryExpr'):
            child = n['c'][0]
            if child.get('lv'):
                return self.lv(child, st, fr)
            out = []
            tmp = (('tmp', n['_id'], fr.ctx), ())
            if child['k'] in ('CXXConstructExpr', 'CXXTemporaryObjectExpr'):
                for s in self.construct(child, st, fr, tmp):
                    out.append((s, tmp))
                return out
            for s, v in self.ev(child, st, fr):
                if v[0] == 'obj':
                    out.append((s, v[1]))
                else:
                    s.mem[tmp] = v
                    out.append((s, tmp))
            return out
        if k in ('CXXConstructExpr', 'CXXTemporaryObjectExpr'):
            tmp = (('tmp', n['_id'], fr.ctx), ())
            return [(s, tmp) for s in self.construct(n, st, fr, tmp)]
        if k == 'CXXThisExpr':
            return [(s, self.deref(s, v, n)) for s, v in self.ev(n, st, fr)]
        self.unknown(n, 'lvalue ' + k)
        return [(st, None)]

    # ------------------------------------------------------------------ calls
    def ev_CallExpr(self, n, st, fr):
        return self.call(n, st, fr)
    ev_CXXMemberCallExpr = ev_CallExpr
    ev_CXXOperatorCallExpr = ev_CallExpr

    def ev_CXXConstructExpr(self, n, st, fr):
        tmp = (('tmp', n['_id'], fr.ctx), ())
        return [(s, ('obj', tmp)) for s in self.construct(n, st, fr, tmp)]
    ev_CXXTemporaryObjectExpr = ev_CXXConstructExpr

    def ev_CXXNewExpr(self, n, st, fr):
        if n.get('nothrow') and not getattr(self, '_in_nothrow', False):
            # the allocation may fail: one path on which the expression is a null pointer and nothing is constructed
            s_fail = st.copy()
            s_fail.note((nloc(n), 'new(nothrow)=NULL'))
            self._in_nothrow = True
            try:
                ok = self.ev_CXXNewExpr(n, st, fr)
            finally:
                self._in_nothrow = False
            return ok + [(s_fail, NULL)]
        at = self.T(n['at'])
        obj = ('new', n['_id'], fr.ctx)
        out = []
        if n.get('isarr'):
            for s, cnt in self.ev(n['arr'], st, fr):
                s.mem[(obj, ('$count',))] = cnt
                s.mem[(obj, ('$elt',))] = ('type', n['at'])
                self.emit('new', s, node=n, obj=obj, count=cnt, at=at)
                init = n.get('init')
                if init is not None and init['k'] in ('CXXConstructExpr',) and at.get('k') == 'rec' and cnt[0] == 'c' and 0 <= cnt[1] <= 64:
                    cur = [s]
                    for i in range(cnt[1]):
                        nxt = []
                        for s1 in cur:
                            nxt += self.construct(init, s1, fr, (obj, (i,)), array_elem=True)
                        cur = nxt
                    for s2 in cur:
                        out.append((s2, P(obj, (0,))))
                elif init is not None and init['k'] in ('CXXConstructExpr',) and at.get('k') == 'rec':
                    # construct the summary element: every element is built by the same constructor
                    idx = ('l', 0, (('$any%d' % n['_id'], 1),))
                    r = rng(cnt, s.sym, self.T(n['arr']))
                    s.sym['$any%d' % n['_id']] = (0, (r[1] - 1) if r else (1 << 31))
                    for s2 in self.construct(init, s, fr, (obj, (idx,)), array_elem=True):
                        out.append((s2, P(obj, (0,))))
                else:
                    s.mem[(obj, ('$def',))] = UNINIT
                    out.append((s, P(obj, (0,))))
            return out
        self.emit('new', st, node=n, obj=obj, count=None, at=at)
        init = n.get('init')
        if init is not None and init['k'] in ('CXXConstructExpr', 'CXXTemporaryObjectExpr'):
            return [(s, P(obj, ())) for s in self.construct(init, st, fr, (obj, ()))]
        if init is not None:
            out = []
            for s, v in self.ev(init, st, fr):
                s.mem[(obj, ())] = v
                out.append((s, P(obj, ())))
            return out
        st.mem[(obj, ('$def',))] = UNINIT
        return [(st, P(obj, ()))]

    def ev_CXXDeleteExpr(self, n, st, fr):
        out = []
        for s, v in self.ev(n['e'], st, fr):
            self.emit('delete', s, node=n, val=v, isarr=n.get('isarr'))
            if v[0] == 'p' and n.get('isarr') and v[2] and v[2][-1] == 0:
                # delete[] of an array of class objects: the element destructor runs once per element
                cnt = s.mem.get((v[1], v[2][:-1] + ('$count',)))
                elt = s.mem.get((v[1], v[2][:-1] + ('$elt',)))
                et = self.T(elt[1]) if elt is not None and elt[0] == 'type' else None
                dt = self._dtor_of(et.get('rec')) if et and et.get('k') == 'rec' else None
                if dt is not None and cnt is not None and cnt[0] == 'c' and 0 <= cnt[1] <= 64 and fr.depth < self.inline_depth:
                    cur = [s]
                    for i in range(cnt[1] - 1, -1, -1):
                        nxt = []
                        for s1 in cur:
                            nxt += [s2 for s2, _ in self.inline(dt, s1, fr, n, P(v[1], v[2][:-1] + (i,)), [], [])]
                        cur = nxt
                    out += [(s2, TOP) for s2 in cur]
                    continue
            if v[0] == 'p' and not n.get('isarr'):
                l = (v[1], v[2])
                dyn = s.mem.get((l[0], l[1] + ('$dyn',)))
                et = self.T(n['e'])
                rec = dyn[1] if dyn else (self.prog.type(et['to']).get('rec') if et and et.get('k') == 'ptr' else None)
                dt = self._dtor_of(rec)
                if dt is not None and fr.depth < self.inline_depth:
                    for s2, _ in self.inline(dt, s, fr, n, P(*l), [], []):
                        out.append((s2, TOP))
                    continue
            out.append((s, TOP))
        return out

    def _dtor_of(self, rec):
        if not rec:
            return None
        for f in self.prog.functions.values():
            if f.get('dtor') and f.get('rec') == rec:
                return f
        return None

    def call(self, n, st, fr):
        callee = n.get('callee') or {}
        q = callee.get('q')
        self.callsites_seen.add(n['_id'])
        # ---- implicit object
        states = [(st, None)]
        argnodes = list(n.get('args', []))
        is_opcall = n['k'] == 'CXXOperatorCallExpr'
        if n['k'] == 'CXXMemberCallExpr':
            on = n.get('obj')
            states = []
            ot = self.T(on)
            if on is None:
                states = [(st, ('ptop', 'this', False))]
            elif ot and ot.get('k') == 'ptr':
                states = list(self.ev(on, st, fr))
            else:
                for s, l in self.lv(on, st, fr):
                    states.append((s, P(*l) if l else ('ptop', 'obj', False)))
        elif is_opcall and callee.get('rec') and argnodes:
            on = argnodes[0]
            argnodes = argnodes[1:]
            states = []
            if on.get('lv'):
                for s, l in self.lv(on, st, fr):
                    states.append((s, P(*l) if l else ('ptop', 'obj', False)))
            else:
                for s, l in self.lv({'k': 'MaterializeTemporaryExpr', 'c': [on], '_id': on['_id'], 't': on.get('t')}, st, fr):
                    states.append((s, P(*l) if l else ('ptop', 'obj', False)))
        # ---- callee not statically known: a plain function pointer whose value the analysis knows
        if not callee.get('m') and n.get('fn') is not None and n['k'] == 'CallExpr':
            out, rest = [], []
            cands_ = []
            for s, fv in self.ev(n['fn'], st, fr):
                if fv[0] == 'fn':
                    cands_.append((s, fv))
                    continue
                # a table of functions subscripted with one ranged unknown: one path per value of the index
                split_ = self._fn_table_split(n['fn'], s, fr)
                if split_:
                    cands_ += split_
                else:
                    cands_.append((s, fv))
            for s, fv in cands_:
                fd = self.prog.functions.get(fv[1]) if fv[0] == 'fn' else None
                if fd is None:
                    rest.append(s)
                    continue
                callee2 = {'q': fd['q'], 'm': fd['id'], 'inrepo': True}
                if fd.get('rec'):
                    callee2['rec'] = fd['rec']
                as_lv2 = [bool(self.T(p_['t']) and self.T(p_['t']).get('k') == 'ref') for p_ in fd['params']][:len(argnodes)]
                as_lv2 += [False] * (len(argnodes) - len(as_lv2))
                for s2, vals in self.ev_list(argnodes, s, fr, as_lv2):
                    out += self.dispatch(n, s2, fr, callee2, None, vals, argnodes)
            if not rest:
                return out
            if out:
                for s in rest:
                    for s2, vals in self.ev_list(argnodes, s, fr, [False] * len(argnodes)):
                        out += self.dispatch(n, s2, fr, callee, None, vals, argnodes)
                return out
        fdef = self.prog.functions.get(callee.get('m')) if callee.get('m') else None
        # ---- arguments: reference parameters receive locations
        as_lv = []
        params = fdef['params'] if fdef else None
        for i, a in enumerate(argnodes):
            if params is not None and i < len(params):
                pt = self.T(params[i]['t'])
                as_lv.append(bool(pt and pt.get('k') == 'ref'))
            else:
                at = self.T(a)
                as_lv.append(bool(a.get('lv') and at and at.get('k') in ('rec', 'array')))
        out = []
        for s, thisv in states:
            if n['k'] == 'CXXMemberCallExpr' and thisv is not None and thisv[0] == 'null' and not callee.get('static'):
                # a member function called through a null pointer: reported, and the path ends (there is no object to run on)
                self.emit('nullderef', s, node=n, val=thisv)
                continue
            for s2, vals in self.ev_list(argnodes, s, fr, as_lv):
                out += self.dispatch(n, s2, fr, callee, thisv, vals, argnodes)
        return out

    def dispatch(self, n, st, fr, callee, thisv, vals, argnodes):
        q = callee.get('q')
        self.emit('call', st, node=n, q=q, callee=callee, this=thisv, args=vals, argnodes=argnodes, fr=fr)
        res = None
        # rule / library models first
        mdl = self.find_model(q)
        if mdl is not None:
            res = mdl(self, st, fr, n, thisv, vals, argnodes)
        if res is None:
            target = callee.get('m')
            fdef = self.prog.functions.get(target) if target else None
            if fdef is not None and callee.get('virt') and thisv is not None:
                res = self.virtual_call(n, st, fr, callee, fdef, thisv, vals, argnodes)
            elif fdef is not None and q not in self.opaque and fr.depth < self.inline_depth and target not in fr.ctx_fns:
                res = self.inline(fdef, st, fr, n, thisv, vals, argnodes)
            elif callee.get('virt') and thisv is not None:
                res = self.virtual_call(n, st, fr, callee, None, thisv, vals, argnodes)
        if res is None:
            res = self.external(n, st, fr, callee, thisv, vals, argnodes)
        for s, v in res:
            self.emit('ret', s, node=n, q=q, callee=callee, this=thisv, args=vals, val=v, fr=fr)
        return res

    def find_model(self, q):
        if not q:
            return None
        m = self.models.get(q)
        if m is not None:
            return m
        # template instantiations: std::function<...>::operator() -> std::function::operator()
        base = strip_templates(q)
        return self.models.get(base)

    def virtual_call(self, n, st, fr, callee, fdef, thisv, vals, argnodes):
        mid = callee['m']
        dyn = None
        if thisv[0] == 'p':
            dyn = st.mem.get((thisv[1], thisv[2] + ('$dyn',)))
        targets = []
        if dyn is not None:
            t = self.prog.resolve_virtual(mid, dyn[1])
            if t:
                targets = [t]
        if not targets:
            cands = {mid} | self.prog.overriders.get(mid, set())
            targets = sorted(c for c in cands if c in self.prog.functions)
            self.emit('virtual_unresolved', st, node=n, callee=callee, targets=targets)
        if not targets:
            return None
        out = []
        multi = len(targets) > 1
        for t in targets:
            f = self.prog.functions.get(t)
            if f is None or fr.depth >= self.inline_depth or f['q'] in self.opaque or t in fr.ctx_fns:
                s = st.copy() if multi else st
                out += self.external(n, s, fr, {'q': f['q'] if f else callee.get('q'), 'm': t}, thisv, vals, argnodes)
                continue
            s = st.copy() if multi else st
            mdl = self.find_model(f['q'])
            r = mdl(self, s, fr, n, thisv, vals, argnodes) if mdl else None
            if r is None:
                r = self.inline(f, s, fr, n, thisv, vals, argnodes)
            out += r
        return out

    def inline(self, fdef, st, fr, n, thisv, vals, argnodes):
        self.stats['calls_inlined'] += 1
        self.fn_visited.add(fdef['id'])
        nf = Frame(fdef, fr.ctx + (n['_id'],), fr.depth + 1)
        nf.ctx_fns = fr.ctx_fns | {fdef['id']}
        if thisv is not None and not fdef.get('static'):
            nf.this = (('L', '$this', nf.ctx), ())
            st.mem[nf.this] = thisv
        for i, p in enumerate(fdef['params']):
            l = nf.local(p['id'])
            pt = self.T(p['t'])
            if i < len(vals):
                v = vals[i]
            elif 'def' in p:
                r = self.ev(p['def'], st, nf)
                v = r[0][1] if r else TOP
            else:
                v = TOP
            if v[0] == 'obj':
                if pt and pt.get('k') == 'ref':
                    st.mem[l] = P(*v[1])
                else:
                    self.copy_object(st, v[1], l)
            elif pt and pt.get('k') == 'rec' and v[0] == 'p':
                self.copy_object(st, (v[1], v[2]), l)
            else:
                st.mem[l] = v
        self.emit('enter', st, fn=fdef, fr=nf, node=n, this=thisv, args=vals)
        states = [st]
        self.frames.append(nf)
        try:
            if fdef.get('ctor'):
                states = self.run_ctor_inits(fdef, states, nf, thisv)
            o = self.exec(fdef['body'], states, nf)
        finally:
            self.frames.pop()
        res = []
        rt = self.T(fdef['ret'])
        for s in o.norm:
            res.append((s, TOP if rt and rt.get('k') != 'void' else ('void',)))
        for s, v in o.ret:
            res.append((s, v))
        for s, v in res:
            self.emit('leave', s, fn=fdef, fr=nf, node=n, val=v)
            self._drop_frame(s, nf)
        if len(res) > 1:
            seen = {}
            for s, v in res:
                k = (s.key(), v)
                if k not in seen:
                    seen[k] = (s, v)
            res = list(seen.values())
        return res

    def _drop_frame(self, st, fr):
        """Locals of a finished frame are dead: remove them so states can merge."""
        ctx = fr.ctx
        dead = [k for k in st.mem if isinstance(k[0], tuple) and k[0][0] == 'L' and k[0][2] == ctx]
        for k in dead:
            del st.mem[k]
        if dead:
            st.abs = frozenset(k for k in st.abs if k in st.mem)

    def run_ctor_inits(self, fdef, states, fr, thisv):
        thisloc = self.deref(states[0], thisv) if thisv is not None and states else None
        for s in states:
            if thisloc is not None:
                s.mem[(thisloc[0], thisloc[1] + ('$dyn',))] = ('type', fdef['rec'])
        for ini in fdef.get('inits', []):
            nxt = []
            e = ini['init']
            for s in states:
                if thisloc is None:
                    nxt.append(s)
                    continue
                if 'field' in ini:
                    fl = (thisloc[0], thisloc[1] + (fdef['rec'] + '::' + ini['field'],))
                    if ini['d'].startswith('F:'):
                        fl = (thisloc[0], thisloc[1] + (ini['d'][2:],))
                    target = fl
                else:
                    target = thisloc
                if e is None:
                    nxt.append(s)
                elif e['k'] in ('CXXConstructExpr', 'CXXTemporaryObjectExpr'):
                    nxt += self.construct(e, s, fr, target)
                elif e['k'] == 'ExprWithCleanups' and e['c'][0]['k'] in ('CXXConstructExpr',):
                    nxt += self.construct(e['c'][0], s, fr, target)
                elif e['k'] == 'InitListExpr' and 'field' in ini and not e.get('c'):
                    # member{}: value-initialisation; an array of scalars becomes all zeros
                    ft_ = None
                    for r_ in self.prog.records.values():
                        for x_ in r_['fields']:
                            if x_['d'][2:] == target[1][-1]:
                                ft_ = self.T(x_['t'])
                    if ft_ and ft_.get('k') == 'array' and ft_.get('n') and ft_['n'] <= 4096 and (self.T(ft_.get('el')) or {}).get('k') in ('int', 'bool', 'enum'):
                        for i_ in range(ft_['n']):
                            s.mem[(target[0], target[1] + (i_,))] = C(0)
                    elif ft_ and ft_.get('k') in ('int', 'bool', 'enum'):
                        s.mem[target] = C(0)
                    elif ft_ and ft_.get('k') == 'ptr':
                        s.mem[target] = NULL
                    else:
                        s.mem[target] = ('opaque', 'initlist')
                    nxt.append(s)
                else:
                    for s2, v in self.ev(e, s, fr):
                        if 'field' in ini:
                            self.assign(s2, target, v, self.T(ini.get('ft')), node=e)
                        nxt.append(s2)
            states = nxt
        for s in states:
            if thisloc is not None:
                s.mem[(thisloc[0], thisloc[1] + ('$dyn',))] = ('type', fdef['rec'])
        return states

    def construct(self, n, st, fr, target, array_elem=False):
        """Run constructor expression n building the object at target; returns states."""
        callee = n['callee']
        q = callee.get('q')
        argnodes = n.get('args', [])
        fdef = self.prog.functions.get(callee.get('m'))
        as_lv = []
        for i, a in enumerate(argnodes):
            if fdef is not None and i < len(fdef['params']):
                pt = self.T(fdef['params'][i]['t'])
                as_lv.append(bool(pt and pt.get('k') == 'ref'))
            else:
                at = self.T(a)
                as_lv.append(bool(a.get('lv') and at and at.get('k') in ('rec', 'array')))
        out = []
        for s, vals in self.ev_list(argnodes, st, fr, as_lv):
            thisv = P(*target)
            self.emit('call', s, node=n, q=q, callee=callee, this=thisv, args=vals, argnodes=argnodes, fr=fr)
            mdl = self.find_model(q)
            r = mdl(self, s, fr, n, thisv, vals, argnodes) if mdl else None
            if r is None:
                if callee.get('copy') and len(vals) == 1 and (vals[0][0] in ('p', 'obj')):
                    src = vals[0][1] if vals[0][0] == 'obj' else (vals[0][1], vals[0][2])
                    if fdef is None:
                        self.copy_object(s, src, target)
                        r = [(s, ('void',))]
                if r is None and fdef is not None and fr.depth < self.inline_depth and q not in self.opaque:
                    r = self.inline(fdef, s, fr, n, thisv, vals, argnodes)
                if r is None:
                    if callee.get('implicit') and callee.get('inrepo'):
                        r = self.implicit_ctor(n, s, fr, target, callee)
                    else:
                        r = self.external(n, s, fr, callee, thisv, vals, argnodes)
            for s2, v in r:
                self.emit('ret', s2, node=n, q=q, callee=callee, this=thisv, args=vals, val=v, fr=fr)
                out.append(s2)
        return out

    def implicit_ctor(self, n, st, fr, target, callee):
        rec = self.prog.records.get(callee.get('rec'))
        st.mem[(target[0], target[1] + ('$dyn',))] = ('type', callee.get('rec'))
        if callee.get('trivial') and not n.get('args') and isinstance(target[0], tuple) and target[0] and target[0][0] == 'new':
            # default-initialisation of a trivially constructible heap object: `new T` leaves the storage as it was, `new T()` zeroes it
            st.mem[(target[0], target[1] + ('$def',))] = C(0) if n.get('zeroing') else UNINIT
        if rec:
            for f in rec['fields']:
                if 'init' in f:
                    for s2, v in self.ev(f['init'], st, fr):
                        s2.mem[(target[0], target[1] + (f['d'][2:],))] = v
        return [(st, ('void',))]

    def external(self, n, st, fr, callee, thisv, vals, argnodes):
        """Unknown external function: result unknown, pointees of non-const pointer args forgotten."""
        q = callee.get('q') or '?'
        if not q.startswith('std::') and not callee.get('builtin') and q not in KNOWN_PURE:
            self.unknown(n, 'external call ' + q)
        self.emit('external', st, node=n, q=q, args=vals, this=thisv)
        for v, a in zip(vals, argnodes):
            at = self.T(a)
            if v[0] == 'p' and at:
                if at.get('k') == 'ptr':
                    to = self.prog.type(at['to'])
                    if not to.get('const') and not q.startswith('std::'):
                        self.havoc(st, (v[1], v[2][:-1] if v[2] and not isinstance(v[2][-1], str) else v[2]))
        t = self.T(n)
        if t and t.get('k') == 'ptr':
            return [(st, ('ptop', 'ext:' + q, True))]
        if t and t.get('k') == 'rec':
            return [(st, ('opaque', t.get('rec')))]
        if t and t.get('k') == 'void':
            return [(st, ('void',))]
        return [(st, TOP)]

    # -------------------------------------------------------------- statements
    def exec(self, n, states, fr):
        if n is None or not states:
            return Out(list(states))
        if len(states) > MAX_STATES:
            raise Budget('more than %d states at %s' % (MAX_STATES, nloc(n)))
        m = getattr(self, 'ex_' + n['k'], None)
        if m is None:
            # expression statement
            out = []
            for s in states:
                if n.get('lv') and n['k'] not in ('CallExpr', 'CXXMemberCallExpr', 'CXXOperatorCallExpr',
                                                   'BinaryOperator', 'CompoundAssignOperator', 'UnaryOperator'):
                    out += [s2 for s2, _ in self.lv(n, s, fr)]
                else:
                    out += [s2 for s2, _ in self.ev(n, s, fr)]
            return Out(out)
        return m(n, states, fr)

    def ex_NullStmt(self, n, states, fr):
        return Out(list(states))

    def ex_CompoundStmt(self, n, states, fr):
        fr.scopes.append([])
        o = Out(list(states))
        for c in n['c']:
            r = self.exec(c, o.norm, fr)
            o.absorb(r)
            o.norm = r.norm
        scope = fr.scopes.pop()
        if scope:
            for d in reversed(scope):
                for lst in (o.norm, o.brk, o.cont):
                    for s in lst:
                        self.run_dtor(s, fr, d)
                for s, v in o.ret:
                    self.run_dtor(s, fr, d)
        return o

    def run_dtor(self, st, fr, d):
        declid, tkey, node = d
        t = self.T(tkey)
        rec = t.get('rec') if t else None
        mdl = self.models.get('~' + (rec or ''))
        l = fr.vars.get(declid)
        if mdl is not None:
            if l is not None:
                mdl(self, st, fr, node, P(*l), [], [])
            return
        # a class of the repository with a destructor of its own (scope guards, RAII owners): run it on the path that leaves
        # the scope.  A destructor that forks is not followed (none does here): the state is kept as it is
        dt = self._dtor_of(rec)
        if dt is not None and l is not None and fr.depth < self.inline_depth:
            r = self.inline(dt, st.copy(), fr, node, P(*l), [], [])
            if len(r) == 1:
                s2 = r[0][0]
                st.mem, st.comps, st.sym, st.abs, st.trace = s2.mem, s2.comps, s2.sym, s2.abs, s2.trace
            elif len(r) > 1:
                self.unknown(node, 'destructor of %s forks at scope exit' % rec)

    def ex_DeclStmt(self, n, states, fr):
        cur = list(states)
        for d in n['decls']:
            t = self.T(d['t'])
            l = fr.local(d['id'])
            if d.get('static'):
                # function-local static: one object for the whole process, initialised the first time control passes here
                l = (('SL', d['id']), ())
                fr.vars[d['id']] = l
                if all(any(k[0] == l[0] for k in s.mem) for s in cur):
                    continue
                if d.get('init') is None:
                    for s in cur:
                        if not any(k[0] == l[0] for k in s.mem):
                            s.mem[(l[0], ('$def',))] = C(0)
                    continue
            if t and t.get('k') == 'ref':
                self._decl_is_ref[d['id']] = True
            if t and t.get('k') == 'rec' and fr.scopes and (('~' + t.get('rec', '')) in self.models or self._dtor_of(t.get('rec')) is not None):
                fr.scopes[-1].append((d['id'], d['t'], n))
            init = d.get('init')
            nxt = []
            for s in cur:
                if init is None:
                    if t and t.get('k') in ('array', 'rec'):
                        s.mem[(l[0], l[1] + ('$def',))] = UNINIT
                    else:
                        s.mem[l] = UNINIT
                    self.emit('decl', s, decl=d, loc=l, node=n, fr=fr)
                    nxt.append(s)
                    continue
                ie = init
                while ie['k'] in ('ExprWithCleanups', 'CXXBindTemporaryExpr') and ie.get('c'):
                    ie = ie['c'][0]
                if t and t.get('k') == 'ref':
                    for s2, tl in self.lv(ie, s, fr):
                        s2.mem[l] = P(*tl) if tl else ('ptop', 'ref', False)
                        nxt.append(s2)
                elif ie['k'] in ('CXXConstructExpr', 'CXXTemporaryObjectExpr') and t and t.get('k') == 'rec':
                    for s2 in self.construct(ie, s, fr, l):
                        self.emit('decl', s2, decl=d, loc=l, node=n, fr=fr)
                        nxt.append(s2)
                elif t and t.get('k') == 'array':
                    self.init_array(s, l, t, ie, fr)
                    self.emit('decl', s, decl=d, loc=l, node=n, fr=fr)
                    nxt.append(s)
                else:
                    for s2, v in self.ev(ie, s, fr):
                        self.assign(s2, l, v, t, node=n)
                        self.emit('decl', s2, decl=d, loc=l, node=n, fr=fr)
                        nxt.append(s2)
            cur = nxt
        return Out(cur)

    def init_array(self, st, l, t, ie, fr):
        if ie['k'] == 'StringLiteral':
            b = ie.get('s', '').encode('latin-1', 'replace')
            st.mem[(l[0], l[1] + ('$def',))] = C(0)
            for i, ch in enumerate(b):
                st.mem[(l[0], l[1] + (i,))] = C(ch)
        elif ie['k'] == 'InitListExpr':
            st.mem[(l[0], l[1] + ('$def',))] = C(0)
            et = self.prog.type(t['el']) if t and t.get('k') == 'array' and t.get('el') else None
            rec = self.prog.records.get(t.get('rec')) if t and t.get('k') == 'rec' else None
            for i, c in enumerate(ie.get('c', [])):
                if rec is not None:
                    if i >= len(rec['fields']):
                        break
                    sub = (l[0], l[1] + (rec['fields'][i]['d'][2:],))
                    st_t = self.prog.type(rec['fields'][i]['t'])
                else:
                    sub = (l[0], l[1] + (i,))
                    st_t = et
                inner = c
                while inner.get('k') in ('ImplicitCastExpr', 'ExprWithCleanups') and inner.get('e', {}).get('k') == 'InitListExpr':
                    inner = inner['e']
                if inner.get('k') == 'InitListExpr' and st_t and st_t.get('k') in ('array', 'rec'):
                    self.init_array(st, sub, st_t, inner, fr)      # rows of a two-dimensional table, structs in an array
                    continue
                r = self.ev(c, st, fr)
                if r:
                    st.mem[sub] = r[0][1]
        else:
            st.mem[(l[0], l[1] + ('$def',))] = TOP

    def ex_ReturnStmt(self, n, states, fr):
        o = Out([])
        e = n.get('e')
        rt = self.T(fr.fn['ret']) if fr.fn else None
        for s in states:
            if e is None:
                o.ret.append((s, ('void',)))
            elif rt and rt.get('k') == 'ref':
                for s2, l in self.lv(e, s, fr):
                    o.ret.append((s2, P(*l) if l else ('ptop', 'retref', False)))
            else:
                for s2, v in self.ev(e, s, fr):
                    o.ret.append((s2, v))
        return o

    def ex_BreakStmt(self, n, states, fr):
        o = Out([])
        o.brk = list(states)
        return o

    def ex_ContinueStmt(self, n, states, fr):
        o = Out([])
        o.cont = list(states)
        return o

    def ex_IfStmt(self, n, states, fr):
        o = Out([])
        if n.get('init'):
            r = self.exec(n['init'], states, fr)
            o.absorb(r)
            states = r.norm
        tstates, fstates = [], []
        for s in states:
            for s2, b in self.cond(n['cond'], s, fr):
                self.emit('branch', s2, node=n, taken=b, fr=fr)
                (tstates if b else fstates).append(s2)
        r1 = self.exec(n['then'], tstates, fr)
        o.absorb(r1)
        o.norm += r1.norm
        if n.get('else') is not None:
            r2 = self.exec(n['else'], fstates, fr)
            o.absorb(r2)
            o.norm += r2.norm
        else:
            o.norm += fstates
        o.norm = self.merge_equal(o.norm)
        return o

    def merge_equal(self, states):
        if len(states) < 2:
            return states
        seen = {}
        for s in states:
            k = s.key()
            if k not in seen:
                seen[k] = s
        return list(seen.values())

    def ex_SwitchStmt(self, n, states, fr):
        o = Out([])
        body = n['body']
        items = body['c'] if body['k'] == 'CompoundStmt' else [body]
        # flatten case labels: list of (labels, stmt)
        seq = []
        for it in items:
            labels = []
            cur = it
            while cur is not None and cur['k'] in ('CaseStmt', 'DefaultStmt'):
                if cur['k'] == 'CaseStmt':
                    labels.append(cur['val'].get('cv'))
                else:
                    labels.append('default')
                cur = cur['sub']
            seq.append((labels, cur))
        all_labels = [l for ls, _ in seq for l in ls]
        for s in states:
            for s2, v in self.ev(n['cond'], s, fr):
                poss = setof(v)
                entries = []
                symname = None
                if poss is None and v[0] == 'l' and v[1] == 0 and len(v[2]) == 1 and v[2][0][1] == 1 and v[2][0][0] in s2.sym:
                    # one ranged unknown: each label (and the default) gets exactly the values of the range that select it
                    r_ = s2.sym[v[2][0][0]]
                    if r_[1] - r_[0] <= 1024:
                        symname = v[2][0][0]
                        poss = set(range(r_[0], r_[1] + 1))
                if poss is not None:
                    groups = {}
                    for x in poss:
                        lab = x if x in all_labels else ('default' if 'default' in all_labels else None)
                        groups.setdefault(lab, set()).add(x)
                    for lab, xs in groups.items():
                        s3 = s2.copy() if len(groups) > 1 else s2
                        if symname is not None:
                            s3.sym[symname] = (min(xs), max(xs))
                            s3.note((nloc(n), 'case %s' % lab))
                            entries.append((s3, lab))
                            continue
                        if len(groups) > 1:
                            lvn = self._lvalue_of_rvalue(n['cond'])
                            if lvn is not None:
                                ls = self.lv(lvn, s3, fr)
                                if len(ls) == 1 and ls[0][1] is not None:
                                    s3.mem[ls[0][1]] = S(xs)
                        entries.append((s3, lab))
                else:
                    for lab in set(all_labels):
                        s3 = s2.copy()
                        if lab != 'default':
                            lvn = self._lvalue_of_rvalue(n['cond'])
                            if lvn is not None:
                                ls = self.lv(lvn, s3, fr)
                                if len(ls) == 1 and ls[0][1] is not None:
                                    s3.mem[ls[0][1]] = C(lab)
                        s3.note((nloc(n), 'case %s' % lab))
                        entries.append((s3, lab))
                    if 'default' not in all_labels:
                        entries.append((s2.copy(), None))
                for s3, lab in entries:
                    self.emit('switch', s3, node=n, label=lab, fr=fr)
                    if lab is None:
                        o.norm.append(s3)
                        continue
                    start = next(i for i, (ls, _) in enumerate(seq) if lab in ls)
                    cur = [s3]
                    for ls, stmt in seq[start:]:
                        if not cur:
                            break
                        r = self.exec(stmt, cur, fr)
                        o.ret += r.ret
                        o.cont += r.cont
                        o.norm += r.brk
                        cur = r.norm
                    o.norm += cur
        o.norm = self.merge_equal(o.norm)
        return o

    def ex_CXXTryStmt(self, n, states, fr):
        snap = [s.copy() for s in states]
        o = self.exec(n['body'], states, fr)
        for h in n.get('handlers', []):
            r = self.exec(h, [s.copy() for s in snap] + [s.copy() for s in o.norm], fr)
            o.absorb(r)
            o.norm += r.norm
        o.norm = self.merge_equal(o.norm)
        return o

    # loops ---------------------------------------------------------------
    def ex_CXXForRangeStmt(self, n, states, fr):
        """for (x : a) over a C array or std::array of known length: the body once per element, in order"""
        o = Out([])
        rng_n, var = n.get('range'), n.get('var')
        t = self.T(rng_n) if rng_n else None
        if t and t.get('k') == 'ref':
            t = self.prog.type(t['to'])
        cnt = None
        if t and t.get('k') == 'array':
            cnt = t.get('n')
        elif t and t.get('k') == 'rec' and (t.get('rec') or '').startswith('std::array'):
            import re as _re
            m_ = _re.search(r',\s*(\d+)\s*>\s*$', (t.get('s') or '').replace('UL', '').replace('ul', ''))
            cnt = int(m_.group(1)) if m_ else None
        if cnt is None or var is None or cnt > 4096:
            self.unknown(n, 'range-for over %s' % ((t or {}).get('s')))
            return Out(list(states))
        vt = self.T(var['t'])
        isref = bool(vt and vt.get('k') == 'ref')
        cur = []
        for s in states:
            for s2, l in self.lv(rng_n, s, fr):
                cur.append((s2, l))
        for i in range(cnt):
            nxt = []
            for s, l in cur:
                if l is None:
                    nxt.append((s, l))
                    continue
                el = (l[0], l[1] + (i,))
                vl = fr.local(var['id'])
                fr.vars[var['id']] = vl
                if isref:
                    self._decl_is_ref[var['id']] = True
                    s.mem[vl] = P(*el)
                else:
                    s.mem[vl] = self.load(s, el, vt, node=n)
                r = self.exec(n['body'], [s], fr)
                o.ret += r.ret
                o.norm += r.brk
                for s3 in r.norm + r.cont:
                    nxt.append((s3, l))
            cur = nxt
            if not cur:
                break
        o.norm += [s for s, _ in cur]
        return o

    def ex_WhileStmt(self, n, states, fr):
        return self.loop(n, states, fr, None, n['cond'], None, n['body'], False)

    def ex_DoStmt(self, n, states, fr):
        return self.loop(n, states, fr, None, n['cond'], None, n['body'], True)

    def ex_ForStmt(self, n, states, fr):
        o = Out([])
        if n.get('init') is not None:
            r = self.exec(n['init'], states, fr)
            states = r.norm
        r = self.loop(n, states, fr, n.get('init'), n.get('cond'), n.get('inc'), n['body'], False)
        return r

    def loop(self, n, states, fr, init, cond, inc, body, do_first):
        o = Out([])
        for l in self.listeners:
            h = getattr(l, 'loop_hook', None)
            if h is not None:
                r = h(self, n, list(states), fr, init, cond, inc, body, do_first)
                if r is not None:
                    return r
        pending = list(states)
        seen = {}
        cond_vars = []
        if cond is not None:
            for x_ in walk(cond):
                if x_.get('k') == 'DeclRefExpr' and not x_.get('glob') and (self.T(x_) or {}).get('k') in ('bool', 'int', 'enum') and len(cond_vars) < 3:
                    if not any(y_.get('k') in ('CallExpr', 'CXXMemberCallExpr', 'CXXOperatorCallExpr') for y_ in walk(cond)):
                        cond_vars.append(x_)
        loopgroup = {}
        summaries = {}          # comps-group -> (widened state, times widened)
        iters = 0
        abs_iters = 0
        abstract = cond is None and not self.concrete_loops
        first = do_first
        while pending:
            iters += 1
            if iters > MAX_CONCRETE_ITERS:
                raise Budget('loop at %s exceeds %d iterations' % (nloc(n), MAX_CONCRETE_ITERS))
            if abstract:
                abs_iters += 1
                if abs_iters > 60:
                    raise Budget('loop at %s does not stabilise' % nloc(n))
            forks0 = self.stats['forks']
            body_in = []
            for s in pending:
                if first or cond is None:
                    body_in.append(s)
                    continue
                before = self.stats['forks']
                for s2, b in self.cond(cond, s, fr):
                    self.emit('loopcond', s2, node=n, taken=b, fr=fr)
                    (body_in if b else o.norm).append(s2)
                if self.stats['forks'] != before:
                    abstract = True
            first = False
            r = self.exec(body, body_in, fr)
            o.norm += r.brk
            o.ret += r.ret
            after = r.norm + r.cont
            if inc is not None:
                nxt = []
                for s in after:
                    nxt += [s2 for s2, _ in self.ev(inc, s, fr)]
                after = nxt
            pending = []
            for s in after:
                k = s.key()
                if k in seen:
                    # the same state again at the loop head: if nothing in this round was decided by a fork, every execution that
                    # reaches this state goes round for ever
                    if self.stats['forks'] == forks0 and not r.brk and not r.ret and cond is not None:
                        self.diverged.append((nloc(n), tuple(str(x) for x in s.trace[-6:])))
                    continue
                seen[k] = s
                if not abstract and (self.concrete_loops or iters < 3 or self.stats['forks'] == forks0):
                    pending.append(s)
                    continue
                abstract = True
                g = frozenset(s.comps.items())
                if cond_vars:
                    # states in which a variable the loop condition reads holds different constants are kept apart: such a
                    # variable is usually a flag that records how the body ended (merging would forget what it stands for)
                    ck = []
                    for dn in cond_vars:
                        try:
                            ls = self.lv(dn, s, fr)
                        except Exception:
                            ls = []
                        v_ = s.mem.get(ls[0][1]) if len(ls) == 1 and ls[0][1] is not None and ls[0][0] is s else None
                        ck.append(v_ if v_ is not None and v_[0] == 'c' else None)
                    g = (g, tuple(ck))
                    if all(c_ is not None for c_ in ck):
                        # the flags are constants here: if they already decide that the loop is left, this state simply leaves
                        # (summarising it with others that leave would only blur what each of them knows)
                        f0_ = self.stats['forks']
                        outs_ = self.cond(cond, s.copy(), fr)
                        self.stats['forks'] = f0_
                        if outs_ and all(not b_ for _, b_ in outs_):
                            for s_out, _ in outs_:
                                self.emit('loopcond', s_out, node=n, taken=False, fr=fr)
                                o.norm.append(s_out)
                            continue
                cur = summaries.get(g)
                if cur is not None and self.subsumes(cur[0], s):
                    continue
                loopgroup[id(s)] = g
                if cur is None:
                    summaries[g] = (s.copy(), 0)
                    pending.append(s)
                else:
                    if DEBUG:
                        self.debug_diff(cur[0], s, n)
                    w = self.widen_pair(cur[0], s, cur[1], n)
                    summaries[g] = (w, cur[1] + 1)
                    # drop pending states of this group: the summary covers them
                    pending = [p for p in pending if loopgroup.get(id(p)) != g]
                    wc_ = w.copy()
                    loopgroup[id(wc_)] = g
                    pending.append(wc_)
        if abstract:
            self.stats['loops_abstract'] += 1
        else:
            self.stats['loops_concrete'] += 1
        o.norm = self.merge_equal(o.norm)
        return o

    def debug_diff(self, A, B, n):
        import sys
        print('--- widen at', nloc(n), file=sys.stderr)
        binding = {}
        for k, va in A.mem.items():
            vb = B.mem.get(k)
            if vb is None:
                if va[0] != 'top':
                    print('   only-in-summary', k, show(va), file=sys.stderr)
            elif not self.val_subsumes(va, vb, A, B, binding):
                print('   differs', k, show(va), 'vs', show(vb), file=sys.stderr)

    def val_subsumes(self, a, b, A, B, binding):
        """Does abstract value a (in state A) cover abstract value b (in state B)?"""
        if a == b:
            if a[0] == 'l':
                for sy, _ in a[2]:
                    ra, rb = A.sym.get(sy), B.sym.get(sy)
                    if ra is not None and rb is not None and not (ra[0] <= rb[0] and rb[1] <= ra[1]):
                        return False
            return True
        if a[0] == 'top':
            return b[0] not in ('p', 'null', 'ptop', 'obj', 'opaque', 'type', 'fn') or True
        if a[0] == 'uninit' or b[0] == 'uninit':
            return False
        if is_int(a) and is_int(b):
            if a[0] == 'l':
                # a pure rigid symbol covers any single (rigid) value within its range, consistently
                if len(a[2]) == 1 and a[2][0][1] == 1 and a[1] == 0:
                    sy = a[2][0][0]
                    if b[0] not in ('c', 'l'):
                        # a non-rigid range is covered only if the symbol is used nowhere else
                        rb = rng(b, B.sym)
                        ra = A.sym.get(sy)
                        if b == TOP or ra is None or rb is None or not (ra[0] <= rb[0] and rb[1] <= ra[1]):
                            return False
                        if sy in binding:
                            return False
                        binding[sy] = ('nonrigid', id(b))
                        return True
                    rb = rng(b, B.sym)
                    ra = A.sym.get(sy)
                    if ra is None or rb is None or not (ra[0] <= rb[0] and rb[1] <= ra[1]):
                        return False
                    if sy in binding and binding[sy] != b:
                        return False
                    binding[sy] = b
                    return True
                return False
            ra, rb = rng(a, A.sym), rng(b, B.sym)
            if ra is None or rb is None:
                return False
            if a[0] == 's':
                sb = setof(b)
                return sb is not None and sb <= set(a[1])
            return ra[0] <= rb[0] and rb[1] <= ra[1]
        if a[0] == 'ptop':
            if b[0] == 'null':
                return a[2]
            if b[0] == 'ptop':
                return a[2] or not b[2]
            return b[0] == 'p'
        if a[0] == 'p' and b[0] == 'p' and a[1] == b[1] and len(a[2]) == len(b[2]):
            for x, y in zip(a[2], b[2]):
                if x == y and not isinstance(x, tuple):
                    continue
                if isinstance(x, str) or isinstance(y, str):
                    return False
                vx = C(x) if isinstance(x, int) else x
                vy = C(y) if isinstance(y, int) else y
                if not is_int(vx) or not is_int(vy) or not self.val_subsumes(vx, vy, A, B, binding):
                    return False
            return True
        return False

    def subsumes(self, A, B):
        """Does state A cover state B?  Rigid symbols of A are bound consistently to values of B; entries of A keyed by an
        index symbol are compared with B's entry at the bound index (or with what B knows about that location)."""
        if A.comps != B.comps:
            return False
        binding = {}
        plain = [(k, v) for k, v in A.mem.items() if not has_abs(k[1])]
        keyed = [(k, v) for k, v in A.mem.items() if has_abs(k[1])]
        for k, va in plain:
            vb = B.mem.get(k)
            if vb is None:
                if va[0] == 'top':
                    continue
                return False
            if not self.val_subsumes(va, vb, A, B, binding):
                return False
        for k, va in keyed:
            path = []
            for x in k[1]:
                if isinstance(x, tuple) and x and x[0] == 'l' and x[1] == 0 and len(x[2]) == 1 and x[2][0][1] == 1 and x[2][0][0] in binding:
                    b = binding[x[2][0][0]]
                    if isinstance(b, tuple) and b and b[0] == 'c':
                        path.append(b[1])
                    elif isinstance(b, tuple) and b and b[0] == 'nonrigid':
                        path.append(x)
                    else:
                        path.append(b)
                else:
                    path.append(x)
            kb = (k[0], tuple(path))
            vb = B.mem.get(kb)
            if vb is None:
                if va[0] == 'top':
                    continue
                vb = self.load(B, kb)
                if vb == TOP:
                    e = None
                    if va[0] == 's':
                        # a small set that is the whole enumeration covers "unknown"
                        for en in self.prog.enums.values():
                            if set(en['consts'].values()) == set(va[1]):
                                e = en
                    if e is not None:
                        continue
                    return False
            if not self.val_subsumes(va, vb, A, B, binding):
                return False
        return True

    def widen_val(self, a, b, A, B, out, times, tag):
        if a == b:
            return a
        ck = (a, b)
        hit = self._wcache.get(ck)
        if hit is not None:
            return hit
        r = self._widen_val(a, b, A, B, out, times, tag)
        self._wcache[ck] = r
        return r

    def _widen_val(self, a, b, A, B, out, times, tag):
        if a[0] == 'uninit' or b[0] == 'uninit':
            return TOP
        if a == TOP or b == TOP:
            return TOP
        if is_int(a) and is_int(b):
            sa, sb = setof(a), setof(b)
            if sa is not None and sb is not None and len(sa | sb) <= 16 and a[0] in ('c', 's') and b[0] in ('c', 's'):
                return S(sa | sb)
            ra, rb = rng(a, A.sym), rng(b, B.sym)
            if ra is None or rb is None or times >= 3:
                lo, hi = -(1 << 63), (1 << 64) - 1
                if ra is not None and rb is not None and min(ra[0], rb[0]) >= 0:
                    lo = 0
            elif times >= 1:
                lo, hi = min(ra[0], rb[0]), max(ra[1], rb[1])
                # accelerate: jump to the next power-of-two style bound
                if hi > ra[1]:
                    hi = (1 << max(8, hi.bit_length() + 8)) - 1
                if lo < ra[0]:
                    lo = -(1 << max(8, (-lo).bit_length() + 8))
            else:
                lo, hi = min(ra[0], rb[0]), max(ra[1], rb[1])
            self.counter += 1
            name = '$w%d' % self.counter
            out.sym[name] = (lo, hi)
            return sym(name)
        if a[0] == 'p' and b[0] == 'p' and a[1] == b[1] and len(a[2]) == len(b[2]):
            path = []
            for x, y in zip(a[2], b[2]):
                if x == y:
                    path.append(x)
                elif isinstance(x, str) or isinstance(y, str):
                    return ('ptop', 'widen', False)
                else:
                    vx = C(x) if isinstance(x, int) else x
                    vy = C(y) if isinstance(y, int) else y
                    if vx[0] == '$cast' or vy[0] == '$cast':
                        return ('ptop', 'widen', False)
                    path.append(self.widen_val(vx, vy, A, B, out, times, tag))
            return P(a[1], path)
        if is_ptr(a) and is_ptr(b):
            nullable = a[0] == 'null' or b[0] == 'null' or (a[0] == 'ptop' and a[2]) or (b[0] == 'ptop' and b[2])
            return ('ptop', 'widen', nullable)
        return TOP

    def widen_pair(self, A, B, times, n):
        out = A.copy()
        self._wcache = {}
        for sy, r in B.sym.items():
            br = out.sym.get(sy)
            out.sym[sy] = r if br is None else (min(r[0], br[0]), max(r[1], br[1]))
        for k in list(out.mem.keys()):
            vb = B.mem.get(k)
            if vb is None:
                del out.mem[k]
                continue
            out.mem[k] = self.widen_val(A.mem[k], vb, A, B, out, times, k)
        out.abs = frozenset(k for k in out.mem if has_abs(k[1]))
        out.note((nloc(n), 'widened'))
        return out

    # --------------------------------------------------------------- entry
    def start_frame(self, fdef):
        fr = Frame(fdef, (), 0)
        fr.ctx_fns = frozenset([fdef['id']])
        return fr

    def run(self, fdef, st=None, this=None, args=None):
        """Interpret function fdef from state st; returns list of (state, return value)."""
        self._decl_is_ref = getattr(self, '_decl_is_ref', {})
        self.index_ref_decls()
        st = st or State()
        fr = self.start_frame(fdef)
        self.fn_visited.add(fdef['id'])
        if this is not None and not fdef.get('static'):
            fr.this = (('L', '$this', ()), ())
            st.mem[fr.this] = this
        for i, p in enumerate(fdef['params']):
            l = fr.local(p['id'])
            v = args[i] if args is not None and i < len(args) else None
            if v is None:
                pt = self.T(p['t'])
                if pt and pt.get('k') in ('ptr',):
                    v = ('ptop', 'param:' + p['n'], True)
                elif pt and pt.get('k') == 'ref':
                    v = P(('ext', 'param:' + p['n']), ())
                else:
                    v = TOP
            pt = self.T(p['t'])
            if pt and pt.get('k') == 'rec' and v[0] == 'p':
                # a class object passed by value: the parameter is a copy of the object the caller names
                self.copy_object(st, (v[1], v[2]), l)
            else:
                st.mem[l] = v
        self.emit('enter', st, fn=fdef, fr=fr, node=None, this=this, args=args or [])
        states = [st]
        self.frames.append(fr)
        try:
            if fdef.get('ctor') and this is not None:
                states = self.run_ctor_inits(fdef, states, fr, this)
            o = self.exec(fdef['body'], states, fr)
        finally:
            self.frames.pop()
        res = [(s, ('void',)) for s in o.norm] + list(o.ret)
        for s, v in res:
            self.emit('leave', s, fn=fdef, fr=fr, node=None, val=v)
        return res

    def index_ref_decls(self):
        if getattr(self, '_ref_indexed', False):
            return
        self._ref_indexed = True
        for f in self.prog.functions.values():
            for p in f['params']:
                t = self.prog.type(p['t'])
                if t.get('k') == 'ref':
                    self._decl_is_ref[p['id']] = True


NEG = {'==': '!=', '!=': '==', '<': '>=', '<=': '>', '>': '<=', '>=': '<'}
FLIP = {'==': '==', '!=': '!=', '<': '>', '<=': '>=', '>': '<', '>=': '<='}
KNOWN_PURE = set()


def _cmpc(op, a, b):
    return {'==': a == b, '!=': a != b, '<': a < b, '<=': a <= b, '>': a > b, '>=': a >= b}[op]


def strip_templates(q):
    out = []
    depth = 0
    for ch in q:
        if ch == '<':
            depth += 1
        elif ch == '>':
            depth -= 1
        elif depth == 0:
            out.append(ch)
    s = ''.join(out)
    # operators that contain < or > themselves
    for op in ('operator<<', 'operator>>', 'operator<', 'operator>', 'operator<=', 'operator>=', 'operator->'):
        if q.endswith(op) and not s.endswith(op):
            s = s[:s.rfind('operator')] + op
    return s
