"""Term domain (tier 2): hash-consed byte terms with a canonical form for the class
   xor-of-table-applications over byte leaves, plus byte vectors for machine words.

Byte term nodes (interned, referred to by integer id):
   ('k', c)                 constant (any int; bytes are 0..255)
   ('v', name)              free byte leaf
   ('x', frozenset(ids), c) XOR of >= 1 distinct non-constant byte terms and the constant c
   ('f', leaf_id, table)    table[leaf] : any function of ONE byte-valued term, as a 256-tuple of ints
   ('u', tag, ids, i)       byte i of an uninterpreted 16-byte function tag applied to the 16 argument bytes
   ('b', op, a, b)          a op b (op in | &, operands over different leaves; commutative: a < b).  No rewrites apply to it, so it
                            only ever makes two terms unequal-by-id, and inequality is reported only with a differing sample
Abstract values:  ('tb', id) one byte term,  ('bv', (id, ...)) little-endian byte vector (u16/u32/u64).
Rewrites are equivalences, so equal canonical ids => equal functions.  Unequal ids are confirmed as a real
difference only by evaluating both terms on sample assignments (evaluation of TERMS, never of wencry code).
"""
import random


class TermError(Exception):
    pass


class TS:
    def __init__(self):
        self.nodes = []
        self.index = {}
        self.tables = {}
        self.oob = []           # (what, max index, size): table subscripts that may leave the table

    def mk(self, node):
        i = self.index.get(node)
        if i is None:
            i = len(self.nodes)
            self.nodes.append(node)
            self.index[node] = i
        return i

    def k(self, c):
        return self.mk(('k', int(c)))

    def v(self, name):
        return self.mk(('v', name))

    def node(self, i):
        return self.nodes[i]

    def is_k(self, i):
        return self.nodes[i][0] == 'k'

    def kval(self, i):
        return self.nodes[i][1]

    # ---- view of a term as a function of one leaf: (leaf_id or None, table or constant)
    def view(self, i):
        n = self.nodes[i]
        if n[0] == 'k':
            return None, n[1]
        if n[0] == 'f':
            return n[1], n[2]
        return i, IDENT

    def f(self, leaf, table):
        table = tuple(table)
        if all(t == table[0] for t in table):
            return self.k(table[0])
        if table == IDENT:
            return leaf
        ln = self.nodes[leaf]
        if ln[0] == 'f':            # compose
            inner = ln[2]
            return self.f(ln[1], tuple(table[x] if 0 <= x < 256 else self._oob('compose', x, 256) for x in inner))
        if ln[0] == 'k':
            return self.k(table[ln[1]])
        return self.mk(('f', leaf, table))

    def _oob(self, what, idx, size):
        self.oob.append((what, idx, size))
        return 0

    def map1(self, i, fn):
        """fn applied pointwise to term i (a function of at most one leaf)."""
        leaf, t = self.view(i)
        if leaf is None:
            return self.k(fn(t))
        return self.f(leaf, tuple(fn(t[x]) for x in range(256)))

    def map2(self, a, b, fn):
        la, ta = self.view(a)
        lb, tb = self.view(b)
        if la is None and lb is None:
            return self.k(fn(ta, tb))
        if la is None:
            return self.f(lb, tuple(fn(ta, tb[x]) for x in range(256)))
        if lb is None:
            return self.f(la, tuple(fn(ta[x], tb) for x in range(256)))
        if la == lb:
            return self.f(la, tuple(fn(ta[x], tb[x]) for x in range(256)))
        return None

    def lookup(self, arr, i, name='table'):
        leaf, t = self.view(i)
        n = len(arr)
        if leaf is None:
            if not (0 <= t < n):
                self._oob(name, t, n)
                return self.k(0)
            return self.k(arr[t])
        mx = max(t)
        if mx >= n or min(t) < 0:
            self._oob(name, mx, n)
        return self.f(leaf, tuple(arr[t[x]] if 0 <= t[x] < n else 0 for x in range(256)))

    def xor(self, ids):
        members = {}
        c = 0
        stack = list(ids)
        while stack:
            i = stack.pop()
            n = self.nodes[i]
            if n[0] == 'k':
                c ^= n[1]
            elif n[0] == 'x':
                c ^= n[2]
                stack.extend(n[1])
            else:
                members[i] = members.get(i, 0) ^ 1
        live = [i for i, m in members.items() if m]
        # members over the same leaf merge into one table
        byleaf = {}
        for i in live:
            leaf, t = self.view(i)
            byleaf.setdefault(leaf, []).append(t)
        out = []
        for leaf, ts in byleaf.items():
            if len(ts) == 1:
                t = ts[0]
            else:
                t = tuple(_xr([tt[x] for tt in ts]) for x in range(256))
            # constant part of the table moves to the set constant: T(x) = T'(x) ^ T(0)
            if t is not IDENT and t[0] != 0 and all(0 <= z < 256 for z in t):
                c ^= t[0]
                t = tuple(z ^ t[0] for z in t)
            m = self.f(leaf, t)
            if self.nodes[m][0] == 'k':
                c ^= self.nodes[m][1]
            else:
                out.append(m)
        if not out:
            return self.k(c)
        if len(out) == 1 and c == 0:
            return out[0]
        return self.mk(('x', frozenset(out), c))

    def select(self, c, a, b):
        lc, tc = self.view(c)
        if lc is None:
            return a if tc else b
        la, ta = self.view(a)
        lb, tb = self.view(b)
        for l in (la, lb):
            if l is not None and l != lc:
                return None
        return self.f(lc, tuple((ta[x] if la is not None else ta) if tc[x] else (tb[x] if lb is not None else tb) for x in range(256)))

    def bin(self, op, a, b):
        r = self.map2(a, b, (lambda p, q: p | q) if op == '|' else (lambda p, q: p & q))
        if r is not None:
            return r
        if a == b:
            return a
        a, b = min(a, b), max(a, b)
        return self.mk(('b', op, a, b))

    def unint(self, tag, args, i):
        return self.mk(('u', tag, tuple(args), i))

    # ---- evaluation of a term under an assignment of the leaves (used only to confirm inequality)
    def evaluate(self, i, env, memo=None, fun=None):
        memo = {} if memo is None else memo
        stack = [i]
        while stack:
            j = stack[-1]
            if j in memo:
                stack.pop()
                continue
            n = self.nodes[j]
            if n[0] == 'k':
                memo[j] = n[1]
            elif n[0] == 'v':
                memo[j] = env[n[1]]
            elif n[0] == 'x':
                miss = [m for m in n[1] if m not in memo]
                if miss:
                    stack.extend(miss)
                    continue
                memo[j] = _xr([memo[m] for m in n[1]]) ^ n[2]
            elif n[0] == 'f':
                if n[1] not in memo:
                    stack.append(n[1])
                    continue
                memo[j] = n[2][memo[n[1]] & 0xff]
            elif n[0] == 'u':
                miss = [m for m in n[2] if m not in memo]
                if miss:
                    stack.extend(miss)
                    continue
                memo[j] = fun(n[1], [memo[m] for m in n[2]], n[3])
            elif n[0] == 'b':
                miss = [m for m in n[2:] if m not in memo]
                if miss:
                    stack.extend(miss)
                    continue
                memo[j] = (memo[n[2]] | memo[n[3]]) if n[1] == '|' else (memo[n[2]] & memo[n[3]])
            stack.pop()
        return memo[i]

    def leaves(self, i, acc=None):
        acc = set() if acc is None else acc
        seen = set()
        stack = [i]
        while stack:
            j = stack.pop()
            if j in seen:
                continue
            seen.add(j)
            n = self.nodes[j]
            if n[0] == 'v':
                acc.add(n[1])
            elif n[0] == 'x':
                stack.extend(n[1])
            elif n[0] == 'f':
                stack.append(n[1])
            elif n[0] == 'u':
                stack.extend(n[2])
            elif n[0] == 'b':
                stack.extend(n[2:])
        return acc

    def size(self, i):
        seen = set()
        stack = [i]
        while stack:
            j = stack.pop()
            if j in seen:
                continue
            seen.add(j)
            n = self.nodes[j]
            if n[0] == 'x':
                stack.extend(n[1])
            elif n[0] == 'f':
                stack.append(n[1])
            elif n[0] == 'u':
                stack.extend(n[2])
            elif n[0] == 'b':
                stack.extend(n[2:])
        return len(seen)

    def show(self, i, depth=2):
        n = self.nodes[i]
        if n[0] == 'k':
            return '0x%02x' % n[1]
        if n[0] == 'v':
            return n[1]
        if depth <= 0:
            return '#%d' % i
        if n[0] == 'x':
            return '(' + ' ^ '.join(sorted(self.show(m, depth - 1) for m in n[1])) + (' ^ 0x%02x' % n[2] if n[2] else '') + ')'
        if n[0] == 'f':
            return 'T%s[%s]' % (self.tname(n[2]), self.show(n[1], depth - 1))
        if n[0] == 'u':
            return '%s(%s..)[%d]' % (n[1], self.show(n[2][0], depth - 1), n[3])
        if n[0] == 'b':
            return '(%s %s %s)' % (self.show(n[2], depth - 1), n[1], self.show(n[3], depth - 1))
        return str(n)

    def tname(self, table):
        h = hash(table) & 0xffff
        return self.tables.get(table, '%04x' % h)


def _xr(vals):
    r = 0
    for v in vals:
        r ^= v
    return r


IDENT = tuple(range(256))


def compare_terms(ts, a, b, samples=64, seed=20260926, fun=None):
    """'equal' | ('differ', assignment, va, vb) | 'undecided' for two byte terms."""
    if a == b:
        return 'equal'
    names = sorted(ts.leaves(a) | ts.leaves(b))
    rnd = random.Random(seed)
    for k in range(samples):
        env = {n: rnd.randrange(256) for n in names}
        va, vb = ts.evaluate(a, env, fun=fun), ts.evaluate(b, env, fun=fun)
        if va != vb:
            return ('differ', {n: env[n] for n in names[:6]}, va, vb)
    return 'undecided'
