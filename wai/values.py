"""Abstract values of the wai interpreter.

Integers:  ('c', v) concrete | ('s', frozenset) small set | ('r', lo, hi) interval
           | ('l', const, ((sym, coef), ...)) linear form over ranged symbols | TOP
Pointers:  NULL | ('p', obj, path) | ('ptop', tag, nullable)
Other:     UNINIT, ('opaque', tag), ('fn', mangled), ('type', rec)
All values are hashable tuples.
"""

TOP = ('top',)
TL_VALUES = {}      # table name -> frozenset of its entries (for symbolic table lookups 'tl')
NULL = ('null',)
UNINIT = ('uninit',)
SETMAX = 64


def C(v):
    return ('c', int(v))


def R(lo, hi):
    if lo > hi:
        lo, hi = hi, lo
    if lo == hi:
        return ('c', lo)
    return ('r', lo, hi)


def S(vals):
    vals = frozenset(int(v) for v in vals)
    if len(vals) == 1:
        return ('c', next(iter(vals)))
    if len(vals) > SETMAX:
        return ('r', min(vals), max(vals))
    return ('s', vals)


def L(const, terms):
    """terms: dict sym->coef or iterable of pairs."""
    if isinstance(terms, dict):
        items = terms.items()
    else:
        items = terms
    d = {}
    for s, c in items:
        if c:
            d[s] = d.get(s, 0) + c
    t = tuple(sorted((s, c) for s, c in d.items() if c))
    if not t:
        return ('c', const)
    return ('l', const, t)


def sym(name):
    return ('l', 0, ((name, 1),))


def P(obj, path=()):
    return ('p', obj, tuple(path))


def is_int(v):
    return v[0] in ('c', 's', 'r', 'l', 'top', 'xk', 'ox', 'shr', 'byte', 'bf', 'tl')


def pure_byte_sym(v, symr):
    """Name of v if it is a single symbol whose range lies within a byte, else None."""
    if v[0] == 'l' and v[1] == 0 and len(v[2]) == 1 and v[2][0][1] == 1:
        r = symr.get(v[2][0][0])
        if r is not None and 0 <= r[0] and r[1] <= 255:
            return v[2][0][0]
    return None


def is_ptr(v):
    return v[0] in ('p', 'null', 'ptop')


def is_const(v):
    return v[0] == 'c'


def type_range(t):
    """(lo, hi) of an integer type descriptor, or None."""
    if not t:
        return None
    bits = t.get('bits')
    if bits is None:
        return None
    if t.get('k') == 'bool':
        return (0, 1)
    if t.get('sg'):
        return (-(1 << (bits - 1)), (1 << (bits - 1)) - 1)
    return (0, (1 << bits) - 1)


def wrap_const(v, t):
    if not t or t.get('bits') is None:
        return v
    if t.get('k') == 'bool':
        return 1 if v else 0
    bits = t['bits']
    v &= (1 << bits) - 1
    if t.get('sg') and v >= (1 << (bits - 1)):
        v -= (1 << bits)
    return v


def rng(v, symr, t=None):
    """Sound (lo, hi) bounds of integer value v, or None when unbounded."""
    k = v[0]
    if k == 'c':
        return (v[1], v[1])
    if k == 's':
        return (min(v[1]), max(v[1]))
    if k == 'r':
        return (v[1], v[2])
    if k == 'tl' and v[1] in TL_VALUES:
        return (min(TL_VALUES[v[1]]), max(TL_VALUES[v[1]]))
    if k in ('xk', 'ox', 'byte', 'tl'):
        return (0, 255)
    if k == 'bf':
        return (0, (1 << v[3]) - 1)
    if k == 'shr':
        r = rng(v[1], symr)
        return None if r is None else (r[0] >> v[2], r[1] >> v[2])
    if k == 'l':
        lo = hi = v[1]
        for s, c in v[2]:
            r = symr.get(s)
            if r is None:
                return type_range(t)
            a, b = r
            if c > 0:
                lo += c * a
                hi += c * b
            else:
                lo += c * b
                hi += c * a
        return (lo, hi)
    return type_range(t)


def fit(v, t, symr):
    """Value v converted to integer type t (wrap-around aware, sound)."""
    if not t or t.get('bits') is None:
        return v
    k = v[0]
    if k == 'c':
        return C(wrap_const(v[1], t))
    if k == 's':
        return S(wrap_const(x, t) for x in v[1])
    if k in ('uninit',):
        return v
    if not is_int(v):
        return TOP
    if k in ('xk', 'ox', 'byte'):
        tr = type_range(t)
        return v if tr[0] <= 0 and tr[1] >= 255 else R(max(tr[0], 0), min(tr[1], 255))
    if k in ('bf', 'tl'):
        tr = type_range(t)
        r_ = rng(v, symr) or (0, 255)
        return v if tr[0] <= r_[0] and r_[1] <= tr[1] else TOP
    if k == 'shr':
        tr = type_range(t)
        r = rng(v, symr)
        if r is not None and tr[0] <= r[0] and r[1] <= tr[1]:
            return v
        if not t.get('sg') and t['bits'] == 8 and v[2] % 8 == 0:
            return ('byte', v[1], v[2] // 8)
        return TOP
    tr = type_range(t)
    r = rng(v, symr, None)
    if r is None:
        return TOP
    if tr[0] <= r[0] and r[1] <= tr[1]:
        return v
    if k == 'l' and r[0] >= 0 and r[1] < (1 << 64) and not t.get('sg') and t['bits'] == 8:
        return ('byte', v, 0)      # low byte of an unwrapped non-negative linear value
    if t.get('k') == 'bool':
        return R(0, 1)
    # may wrap: if the whole range shifts by one modulus keep an interval
    span = tr[1] - tr[0] + 1
    if r[1] - r[0] < span:
        lo, hi = wrap_const(r[0], t), wrap_const(r[1], t)
        if lo <= hi:
            return R(lo, hi)
    return TOP


def join(a, b, symr=None):
    if a == b:
        return a
    symr = symr or {}
    if a[0] == 'uninit' or b[0] == 'uninit':
        return TOP
    if a[0] in ('xk', 'ox', 'shr', 'byte', 'bf', 'tl') or b[0] in ('xk', 'ox', 'shr', 'byte', 'bf', 'tl'):
        if is_int(a) and is_int(b) and a != TOP and b != TOP:
            ra, rb = rng(a, symr), rng(b, symr)
            if ra and rb:
                return R(min(ra[0], rb[0]), max(ra[1], rb[1]))
        return TOP
    if is_int(a) and is_int(b):
        if a[0] == 'top' or b[0] == 'top':
            return TOP
        if a[0] in ('c', 's') and b[0] in ('c', 's'):
            sa = {a[1]} if a[0] == 'c' else a[1]
            sb = {b[1]} if b[0] == 'c' else b[1]
            return S(set(sa) | set(sb))
        ra, rb = rng(a, symr), rng(b, symr)
        if ra is None or rb is None:
            return TOP
        return R(min(ra[0], rb[0]), max(ra[1], rb[1]))
    if is_ptr(a) and is_ptr(b):
        return ('ptop', 'join', True)
    return TOP


def lin_parts(v):
    """(const, {sym: coef}) for c / l values, else None."""
    if v[0] == 'c':
        return v[1], {}
    if v[0] == 'l':
        return v[1], dict(v[2])
    return None


def add(a, b, symr, sign=1):
    pa, pb = lin_parts(a), lin_parts(b)
    if pa is not None and pb is not None:
        d = dict(pa[1])
        for s, c in pb[1].items():
            d[s] = d.get(s, 0) + sign * c
        return L(pa[0] + sign * pb[0], d)
    ra, rb = rng(a, symr), rng(b, symr)
    if ra is None or rb is None:
        return TOP
    if a[0] in ('c', 's') and b[0] in ('c', 's'):
        sa = {a[1]} if a[0] == 'c' else a[1]
        sb = {b[1]} if b[0] == 'c' else b[1]
        if len(sa) * len(sb) <= SETMAX:
            return S(x + sign * y for x in sa for y in sb)
    if sign == 1:
        return R(ra[0] + rb[0], ra[1] + rb[1])
    return R(ra[0] - rb[1], ra[1] - rb[0])


def mul(a, b, symr):
    if b[0] == 'c' and a[0] != 'c':
        a, b = b, a
    if a[0] == 'c':
        pb = lin_parts(b)
        if pb is not None:
            return L(a[1] * pb[0], {s: c * a[1] for s, c in pb[1].items()})
    if a[0] in ('c', 's') and b[0] in ('c', 's'):
        sa = {a[1]} if a[0] == 'c' else a[1]
        sb = {b[1]} if b[0] == 'c' else b[1]
        if len(sa) * len(sb) <= SETMAX:
            return S(x * y for x in sa for y in sb)
    ra, rb = rng(a, symr), rng(b, symr)
    if ra is None or rb is None:
        return TOP
    prods = [ra[0] * rb[0], ra[0] * rb[1], ra[1] * rb[0], ra[1] * rb[1]]
    return R(min(prods), max(prods))


def setof(v):
    if v[0] == 'c':
        return {v[1]}
    if v[0] == 's':
        return set(v[1])
    if v[0] == 'r' and v[2] - v[1] < SETMAX:
        return set(range(v[1], v[2] + 1))
    return None


def binop(op, a, b, symr, t=None):
    """Integer binary operation on abstract values (before wrapping to type)."""
    if a[0] == 'uninit' or b[0] == 'uninit' or not is_int(a) or not is_int(b):
        return TOP
    # byte-level terms: k ^ const ('xk') and OR of XORs of two byte symbols ('ox')
    if op == '^':
        pa_, pb_ = pure_byte_sym(a, symr), pure_byte_sym(b, symr)
        if pa_ and b[0] == 'c' and 0 <= b[1] <= 255:
            return ('xk', pa_, b[1]) if b[1] else a
        if pb_ and a[0] == 'c' and 0 <= a[1] <= 255:
            return ('xk', pb_, a[1]) if a[1] else b
        if pa_ and pb_:
            return ('ox', frozenset([tuple(sorted((pa_, pb_)))])) if pa_ != pb_ else C(0)
    if op == '|':
        if a[0] == 'ox' and b[0] == 'ox':
            return ('ox', a[1] | b[1])
        if a[0] == 'ox' and b == ('c', 0):
            return a
        if b[0] == 'ox' and a == ('c', 0):
            return b
    if op == '&' and b[0] == 'c' and b[1] > 0 and (b[1] & (b[1] + 1)) == 0 and a[0] in ('shr', 'l') and not (a[0] == 'shr' and b[1] == 0xff and a[2] % 8 == 0):
        # bit field of an unwrapped non-negative linear value: (L >> s) & (2^w - 1)
        base, sh = (a[1], a[2]) if a[0] == 'shr' else (a, 0)
        rb_ = rng(base, symr)
        if rb_ is not None and rb_[0] >= 0 and rb_[1] < (1 << 64):
            w = b[1].bit_length()
            if rb_[1] >> sh <= b[1]:
                return a
            if sh == 0:
                pa_ = lin_parts(base)
                k_ = b[1] + 1
                lo_part = L(pa_[0] % k_, {s_: c_ for s_, c_ in pa_[1].items() if c_ % k_ != 0})
                rl_ = rng(lo_part, symr)
                if rl_ is not None and 0 <= rl_[0] and rl_[1] < k_:
                    return lo_part
            return ('bf', base, sh, w)
    if a[0] == 'bf' or b[0] == 'bf':
        ra_, rb_ = rng(a, symr), rng(b, symr)
        if ra_ is None or rb_ is None:
            return TOP
        a = R(*ra_) if a[0] == 'bf' else a
        b = R(*rb_) if b[0] == 'bf' else b
    if a[0] in ('shr', 'byte') or b[0] in ('shr', 'byte'):
        if op == '>>' and a[0] == 'shr' and b[0] == 'c' and 0 <= b[1] and a[2] + b[1] < 64:
            return ('shr', a[1], a[2] + b[1])       # floor(floor(v / 2^j) / 2^k) = floor(v / 2^(j+k))
        if op == '&' and b == ('c', 0xff) and a[0] == 'shr' and a[2] % 8 == 0:
            return ('byte', a[1], a[2] // 8)
        if op == '&' and b == ('c', 0xff) and a[0] == 'byte':
            return a
        ra_, rb_ = rng(a, symr), rng(b, symr)
        if ra_ is None or rb_ is None:
            return TOP
        a = R(*ra_) if a[0] in ('shr', 'byte') else a
        b = R(*rb_) if b[0] in ('shr', 'byte') else b
    if a[0] in ('xk', 'ox') or b[0] in ('xk', 'ox'):
        ra_, rb_ = rng(a, symr), rng(b, symr)
        a = R(*ra_) if a[0] in ('xk', 'ox') else a
        b = R(*rb_) if b[0] in ('xk', 'ox') else b
    if op == '+':
        return add(a, b, symr)
    if op == '-':
        return add(a, b, symr, -1)
    if op == '*':
        return mul(a, b, symr)
    sa, sb = setof(a), setof(b)
    if sa is not None and sb is not None and len(sa) * len(sb) <= 4 * SETMAX:
        try:
            res = set()
            for x in sa:
                for y in sb:
                    res.add(_cbin(op, x, y))
            return S(res)
        except ZeroDivisionError:
            return TOP
    ra, rb = rng(a, symr), rng(b, symr)
    if op == '<<' and b[0] == 'c' and 0 <= b[1] < 64:
        return mul(a, C(1 << b[1]), symr)
    if op == '>>' and b[0] == 'c' and 0 <= b[1] < 64:
        k = 1 << b[1]
        pa = lin_parts(a)
        if pa is not None and ra is not None and ra[0] >= 0:
            # split into a multiple-of-k part and a remainder within [0, k): floor is exact
            hi_part = {s: c for s, c in pa[1].items() if c % k == 0}
            lo_part = L(pa[0] % k, {s: c for s, c in pa[1].items() if c % k != 0})
            rl = rng(lo_part, symr)
            if rl is not None and 0 <= rl[0] and rl[1] < k:
                return L(pa[0] // k, {s: c // k for s, c in hi_part.items()})
            if a[0] == 'l' and ra[1] < (1 << 64):
                return ('shr', a, b[1])
        if ra is not None and ra[0] >= 0:
            return R(ra[0] >> b[1], ra[1] >> b[1])
        return TOP
    if op == '&' and (b[0] == 'c' or a[0] == 'c'):
        if a[0] == 'c':
            a, b, ra, rb = b, a, rb, ra
        m = b[1]
        if m >= 0:
            pa = lin_parts(a)
            if pa is not None and ra is not None and ra[0] >= 0 and (m & (m + 1)) == 0:
                k = m + 1     # low-bit mask: value mod k
                lo_part = L(pa[0] % k, {s: c for s, c in pa[1].items() if c % k != 0})
                rl = rng(lo_part, symr)
                if rl is not None and 0 <= rl[0] and rl[1] < k:
                    return lo_part
            if ra is not None and ra[0] >= 0:
                return R(0, min(m, ra[1]))
            return R(0, m)
        return TOP
    if op == '%' and b[0] == 'c' and b[1] > 0:
        pa = lin_parts(a)
        if pa is not None and ra is not None and ra[0] >= 0:
            k = b[1]
            lo_part = L(pa[0] % k, {s: c for s, c in pa[1].items() if c % k != 0})
            rl = rng(lo_part, symr)
            if rl is not None and 0 <= rl[0] and rl[1] < k:
                return lo_part
            if all(c % k == 0 for c in pa[1].values()):
                return C(pa[0] % k)
        if ra is not None and ra[0] >= 0:
            if ra[1] < b[1]:
                return a
            return R(0, b[1] - 1)
        return R(-(b[1] - 1), b[1] - 1)
    if op == '%' and rb is not None and rb[0] > 0 and ra is not None and ra[0] >= 0:
        return R(0, min(ra[1], rb[1] - 1))
    if op == '/' and b[0] == 'c' and b[1] > 0:
        pa = lin_parts(a)
        if pa is not None and ra is not None and ra[0] >= 0:
            k = b[1]
            lo_part = L(pa[0] % k, {s: c for s, c in pa[1].items() if c % k != 0})
            rl = rng(lo_part, symr)
            if rl is not None and 0 <= rl[0] and rl[1] < k:
                return L(pa[0] // k, {s: c // k for s, c in pa[1].items() if c % k == 0})
        if ra is not None and ra[0] >= 0:
            return R(ra[0] // b[1], ra[1] // b[1])
        return TOP
    if op == '|' and ra is not None and rb is not None and ra[0] >= 0 and rb[0] >= 0:
        # disjoint bit ranges: (x << k) | y with y < 2^k behaves as +
        pa = lin_parts(a)
        if pa is not None and rb[1] >= 0:
            k = 1
            while k <= rb[1]:
                k <<= 1
            if pa[0] % k == 0 and all(c % k == 0 for c in pa[1].values()):
                return add(a, b, symr)
        hi = max(ra[1], rb[1])
        bits = hi.bit_length()
        return R(max(ra[0], rb[0]), (1 << bits) - 1)
    if op == '^' and ra is not None and rb is not None and ra[0] >= 0 and rb[0] >= 0:
        bits = max(ra[1], rb[1]).bit_length()
        return R(0, (1 << bits) - 1)
    return TOP


def _cbin(op, x, y):
    if op == '+': return x + y
    if op == '-': return x - y
    if op == '*': return x * y
    if op == '/':
        if y == 0: raise ZeroDivisionError
        q = abs(x) // abs(y)
        return q if (x >= 0) == (y >= 0) else -q
    if op == '%':
        if y == 0: raise ZeroDivisionError
        r = abs(x) % abs(y)
        return r if x >= 0 else -r
    if op == '<<': return x << y if 0 <= y < 128 else 0
    if op == '>>': return x >> y if 0 <= y < 128 else 0
    if op == '&': return x & y
    if op == '|': return x | y
    if op == '^': return x ^ y
    raise ValueError(op)


def compare(op, a, b, symr, t=None):
    """True / False / None (undecided) for a op b on integer values."""
    if a[0] == 'uninit' or b[0] == 'uninit':
        return None
    if is_ptr(a) or is_ptr(b):
        if op in ('<', '<=', '>', '>=') and a[0] == 'p' and b[0] == 'p' and a[1] == b[1] and a[2] and b[2] and a[2][:-1] == b[2][:-1] \
                and not isinstance(a[2][-1], str) and not isinstance(b[2][-1], str):
            # two pointers into the same array: ordered like their indices
            x_, y_ = a[2][-1], b[2][-1]
            x_ = C(x_) if isinstance(x_, int) else x_
            y_ = C(y_) if isinstance(y_, int) else y_
            if is_int(x_) and is_int(y_):
                return compare(op, x_, y_, symr)
        return compare_ptr(op, a, b)
    if not is_int(a) or not is_int(b):
        return None
    for x_, y_, o_ in ((a, b, op), (b, a, FLIPV.get(op, op))):
        if x_[0] == 'tl' and y_[0] == 'c' and x_[1] in TL_VALUES:
            vs_ = TL_VALUES[x_[1]]
            res_ = {_cmpv(o_, e_, y_[1]) for e_ in vs_}
            if len(res_) == 1:
                return res_.pop()
            return None
    if a[0] == 'tl' or b[0] == 'tl':
        if a == b:
            return op in ('==', '<=', '>=')
        return None
    if a[0] in ('shr', 'byte', 'bf') or b[0] in ('shr', 'byte', 'bf'):
        if a == b:
            return op in ('==', '<=', '>=')
        ra_, rb_ = rng(a, symr), rng(b, symr)
        if ra_ is None or rb_ is None:
            return None
        a = R(*ra_) if a[0] in ('shr', 'byte', 'bf') else a
        b = R(*rb_) if b[0] in ('shr', 'byte', 'bf') else b
    if a[0] in ('xk', 'ox') or b[0] in ('xk', 'ox'):
        if a == b and op in ('==', '<=', '>='):
            return True
        if a == b and op in ('!=', '<', '>'):
            return False
        a = R(0, 255) if a[0] in ('xk', 'ox') else a
        b = R(0, 255) if b[0] in ('xk', 'ox') else b
    d = add(a, b, symr, -1)
    r = rng(d, symr)
    if r is None:
        ra, rb = rng(a, symr, t), rng(b, symr, t)
        if ra is None or rb is None:
            return None
        r = (ra[0] - rb[1], ra[1] - rb[0])
    lo, hi = r
    if op == '==':
        if lo == hi == 0: return True
        if lo > 0 or hi < 0: return False
        sa, sb = setof(a), setof(b)
        if sa is not None and sb is not None and not (sa & sb): return False
        return None
    if op == '!=':
        x = compare('==', a, b, symr, t)
        return None if x is None else (not x)
    if op == '<':
        if hi < 0: return True
        if lo >= 0: return False
        return None
    if op == '<=':
        if hi <= 0: return True
        if lo > 0: return False
        return None
    if op == '>':
        return compare('<', b, a, symr, t)
    if op == '>=':
        return compare('<=', b, a, symr, t)
    return None


FLIPV = {'<': '>', '<=': '>=', '>': '<', '>=': '<='}


def _cmpv(op, x, y):
    return {'==': x == y, '!=': x != y, '<': x < y, '<=': x <= y, '>': x > y, '>=': x >= y}[op]


def compare_ptr(op, a, b):
    if op not in ('==', '!='):
        return None
    eq = None
    if a[0] == 'null' and b[0] == 'null':
        eq = True
    elif a[0] == 'c' and a[1] == 0 and b[0] == 'null' or b[0] == 'c' and b[1] == 0 and a[0] == 'null':
        eq = True
    elif (a[0] == 'p' and (b[0] == 'null' or b == ('c', 0))) or (b[0] == 'p' and (a[0] == 'null' or a == ('c', 0))):
        eq = False
    elif a[0] == 'ptop' and not a[2] and (b[0] == 'null' or b == ('c', 0)):
        eq = False
    elif b[0] == 'ptop' and not b[2] and (a[0] == 'null' or a == ('c', 0)):
        eq = False
    elif a[0] == 'p' and b[0] == 'p':
        if a == b and all(isinstance(x, (int, str)) for x in a[2]):
            eq = True
        elif a[1] != b[1]:
            eq = False
    if eq is None:
        return None
    return eq if op == '==' else (not eq)


def truth(v, symr):
    """Truth value of v as a condition: True / False / None."""
    if v[0] == 'null':
        return False
    if v[0] == 'p':
        return True
    if v[0] == 'ptop':
        return None if v[2] else True
    if v[0] in ('opaque', 'fn'):
        return None
    if is_int(v):
        return compare('!=', v, C(0), symr)
    return None


def show(v):
    k = v[0]
    if k == 'c': return str(v[1])
    if k == 's': return '{' + ','.join(str(x) for x in sorted(v[1])) + '}'
    if k == 'r': return '[%d,%d]' % (v[1], v[2])
    if k == 'l':
        s = ' + '.join(('%d*%s' % (c, n) if c != 1 else n) for n, c in v[2])
        return s + (' + %d' % v[1] if v[1] else '')
    if k == 'p': return '&%s%s' % (v[1], ''.join('[%s]' % (show(x) if isinstance(x, tuple) else x) for x in v[2]))
    if k == 'bf': return 'bits[%d..%d)(%s)' % (v[2], v[2] + v[3], show(v[1]))
    if k == 'tl': return '%s[%s]' % (v[1], show(v[2]))
    if k == 'shr': return '(%s>>%d)' % (show(v[1]), v[2])
    if k == 'byte': return 'byte%d(%s)' % (v[2], show(v[1]))
    if k == 'xk': return '(%s^0x%02x)' % (v[1], v[2])
    if k == 'ox': return 'OR{' + ','.join('%s^%s' % p for p in sorted(v[1])) + '}'
    if k == 'xk': return '(%s^0x%02x)' % (v[1], v[2])
    if k == 'ox': return 'OR{' + ','.join('%s^%s' % p for p in sorted(v[1])) + '}'
    if k == 'top': return 'T'
    if k == 'null': return 'NULL'
    return str(v)
