#!/bin/bash
# tools/mutant.sh <patch-file> <property-id>...   apply a patch to a scratch copy of /repo's sources and run checks on it
# (never touches /repo; evidence goes to scratch). Prints one line per property: <id> exit=<code> [first VIOLATION key]
set -u
PATCH=$(readlink -f "$1"); shift
HERE=$(dirname "$(dirname "$(readlink -f "$0")")")
S=$(mktemp -d /var/tmp/wencry-mut.XXXXXX)
trap 'rm -rf "$S"' EXIT
mkdir -p "$S/repo" "$S/ev"
(cd /repo && git ls-files | grep -v '^_build/' | tar cf - -T -) | tar xf - -C "$S/repo"
# include uncommitted working-tree state of tracked files
if ! (cd "$S/repo" && patch -p1 -s --no-backup-if-mismatch < "$PATCH"); then echo "PATCH-FAILED $PATCH"; exit 3; fi
if [ "${MUTANT_SYNTAX:-0}" = "1" ]; then
  :
fi
for P in "$@"; do
  OUT=$(cd "$HERE" && WENCRY_REPO="$S/repo" WENCRY_EVIDENCE_DIR="$S/ev" ./check "$P" 2>&1); C=$?
  K=$(echo "$OUT" | grep -B1 '^VIOLATION' | grep -v '^VIOLATION' | grep -v '^--' | head -3 | cut -c1-260 | tr '\n' '|')
  B=$(echo "$OUT" | grep '^ANALYSIS-BROKEN' | head -2 | cut -c1-200 | tr '\n' '|')
  echo "$P exit=$C $K $B"
done
