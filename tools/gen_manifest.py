#!/usr/bin/env python3
"""Regenerate MANIFEST.json from the table below (claimed = a rules/cNN.py module exists and is listed here)."""
import json, os
HERE = os.path.dirname(os.path.dirname(os.path.abspath(__file__)))
props = [json.loads(l) for l in open(os.path.join(HERE, 'properties.jsonl'))]
T = {}   # id -> (category, text, note, technique, design_ref)
exec(open(os.path.join(HERE, 'tools', 'manifest_table.py')).read())
checks, na = [], []
for p in props:
    pid = p['id']
    if pid in CLAIMED and os.path.exists(os.path.join(HERE, 'rules', pid.lower() + '.py')):
        c = CLAIMED[pid]
        checks.append({
            'property_id': pid,
            'quick_cmd': './check %s' % pid,
            'thorough_cmd': './check %s --tier thorough' % pid,
            'evidence_file': '/verif/evidence/%s.json' % pid,
            'replay_cmd_template': './check --replay {path}',
            'engine': 'wai',
            'level_claimed': {'category': c['category'], 'text': c['text'], 'design_ref': 'DESIGN.md section 5, ' + pid},
            'level_note': c['note'],
            'technique': c['technique'],
        })
    else:
        na.append({'property_id': pid, 'reason': NOT_CLAIMED.get(pid, 'no static check is registered for this property yet; see DESIGN.md section 6')})
m = {
    'version': 1,
    'setup_cmd': 'mkdir -p build && clang++ $(llvm-config-14 --cxxflags) -fno-rtti extractor/wfacts.cc -o build/wfacts /usr/lib/llvm-14/lib/libclang-cpp.so.14 /usr/lib/llvm-14/lib/libLLVM-14.so && python3 -m compileall -q wai rules spec',
    'hooks': {'guard': 'WENCRY_VERIF', 'enable': 'no source hooks: the checks parse /repo with -DWENCRY_VERIF defined, which no source line tests',
              'baseline_off_cmd': 'tools/baseline_off.sh', 'source_commits': [], 'add_only': True},
    'engines': [{'name': 'wai', 'path': 'wai/', 'serves_properties': [c['property_id'] for c in checks],
                 'kind_free_text': 'static analysis: libTooling fact extractor (extractor/wfacts.cc) + abstract interpreter over the type-checked AST (wai/) + repository-specific rule modules (rules/)'}],
    'checks': checks,
    'not_applicable': na,
    'notes': 'Static analysis only. exit 0 held / 1 VIOLATION / 2 ANALYSIS-BROKEN. Known findings in known_findings.txt. See DESIGN.md.',
}
json.dump(m, open(os.path.join(HERE, 'MANIFEST.json'), 'w'), indent=1)
print('claimed', [c['property_id'] for c in checks], 'not claimed', [x['property_id'] for x in na])
