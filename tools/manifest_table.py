NOTE = ('Trusted: clang 14 front end, the wfacts extractor, the wai transfer functions and library models (stdio, memcpy/memset, '
        'std::mutex/unique_lock/condition_variable/thread), C++ memory model for mutex/thread-create/join ordering. '
        'Decides necessary structural conditions of the property on every abstract path, not the run-time behaviour itself.')
CLAIMED = {
 'C03': dict(category='other', technique='abstract interpretation: ownership typestate with inferred rely/guarantee, per thread role',
             text='Decides, on every abstract path of the worker role and of the I/O role, that a chunk buffer is touched only while the '
                  'token value makes the role its exclusive owner (token value tracked as the abstract value of the real field through '
                  'the real wait/set methods; stability across lock release from an inferred rely/guarantee pair), that every entry '
                  'obtained is passed to the cipher step exactly once, that the cursor function is b[now++]/NULL, that a buffer is handed '
                  'back only when consumed, that READY implies a non-empty buffer, and that thread i gets id i and stream i for T=1..16. '
                  'These exclude every way the schedule could influence the output; byte equality itself is not computed.',
             note=NOTE),
}
NOT_CLAIMED = {}
