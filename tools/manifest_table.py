NOTE = ('Trusted: clang 14 front end, the wfacts extractor, the wai transfer functions and library models (stdio, memcpy/memset, '
        'std::mutex/unique_lock/condition_variable/thread), C++ memory model for mutex/thread-create/join ordering. '
        'Decides necessary structural conditions of the property on every abstract path, not the run-time behaviour itself.')
CLAIMED = {
 'C03': dict(category='other', technique='abstract interpretation: ownership typestate with inferred rely/guarantee, per thread role',
             text='Decides, on every abstract path of the worker role and of the I/O role, that a chunk buffer is touched only while the '
                  'token value makes the role its exclusive owner (token value tracked as the abstract value of the real field through '
                  'the real wait/set methods; stability across lock release from an inferred rely/guarantee pair), that every entry '
                  'obtained is passed to the cipher step exactly once, that the cursor function is b[now++]/NULL, that a buffer is handed '
                  'back only when consumed, that READY implies a non-empty buffer, and that thread i gets id i and stream i for T=1..16. '
                  'These exclude every way the schedule could influence the output; byte equality itself is not computed.',
             note=NOTE),
}
def _c(tech, text):
    return dict(category='other', technique=tech, text=text, note=NOTE)

CLAIMED.update({
 'C01': _c('abstract interpretation of the chunk load/export code over a remaining-length partition; access-log comparison per thread count',
           'Decides the structural necessary conditions of the round trip: PKCS#7 pad write for every residue, end-of-body table '
           '(FULL/FINAL/NODATA) for encrypt and decrypt over r=0, 0<r<sum aligned/unaligned, r=sum, r>sum, non-empty READY buffers, '
           'export size within the buffer under a valid-padding guard, decrypt body offset = writer header length for every T, '
           'chunk i <-> stream i. Byte equality of decrypt(encrypt(P)) is not computed.'),
 'C02': _c('abstract interpretation of execute_encrypt from a constructor-built object; ordered stream-access log vs documented layout',
           'Decides, per thread count, that the bytes written before the body tile [0,48+20T) exactly as documented (magic, mode bytes, '
           '38 zeros, T 20-byte IV slots of one array), the body starts at 48+20T, the tag goes to offset 10 last, the IV chain is '
           'H(seed), H(iv[i-1]), one stream per thread in the right direction, padding/end-of-body rules, and nothing writes the input. '
           'The cipher bytes themselves are C09/C10; byte-for-byte equality with a reference is not computed.'),
 'C04': _c('monitor-discipline analysis (lockset, wait-loop leave sets, notify-before-release) + role typestate + exhaustive T enumeration of spawn/join',
           'Decides the monitor discipline that excludes lost wake-ups (token written only under its mutex; every wait in a re-testing '
           'loop with computed leave set; notify_all on every condition variable whose leave set contains the written value before the '
           'mutex is released; leave sets reachable), no READY buffer without blocks, workers exit only on INV, every thread joined for '
           'T=1..16, I/O loop exits only with live counter 0, live counter tied to INV, no load after end of input. '
           'Liveness under fairness as such is not decided.'),
 'C05': _c('provenance by named file-offset symbols in an abstract run of verify+decrypt; control-dependence gate; comparison completeness',
           'Decides that every file-derived scalar steering processing after the gate lies in the hashed range or is pinned to a constant '
           '(the cipher-mode byte at offset 8 is the recorded known finding), accepted paths hash [48,EOF), output effects are gated on '
           'verify()==0, and the tag compare establishes equality of every digest byte. Cryptographic strength is assumed.'),
 'C06': _c('control-dependence gate + comparison completeness + key-byte content flow through the HMAC computation',
           'Decides that decryption output is control-dependent on verify()==0, the compare accepts only with every digest byte equal, '
           'and all 16 key bytes reach both hash inputs by content; cipher streams get the same key. That a different key gives a '
           'different tag is the MAC assumption.'),
 'C08': _c('abstract interpretation of the tag computation with named key bytes; access-log offsets',
           'Decides the RFC 2104 structure by content (K0^ipad || stream-to-EOF, K0^opad || inner digest, length B+L, same hasher) for the '
           'three hash modes, tag offset 10 / hashed range from 48 on both sides, zero-filled tag area, complete compare. Digest values are C07.'),
 'C12': _c('sibling cross-check of the abstract path sets of execute_verify and execute_decrypt',
           'Decides that both operations return exactly (shared verification returned 0), reach it with the same reads and outcome set, '
           'handle a missing input alike, that verify has no output effect and nothing writes the input stream.'),
 'C13': _c('ordering analysis of the write list of execute_encrypt per thread count',
           'Decides that the tag write is the single and last output write after the body, preceded by the hash over [48,EOF), and that '
           'every earlier write into [10,48) is zero, so every proper prefix of the write sequence carries a zero/partial tag; with the '
           'complete compare this leaves only the cryptographic assumption.'),
 'C14': _c('abstract interpretation: ownership typestate with inferred rely/guarantee, per thread role',
           'Decides that every buffer field access in either role happens under exclusive ownership of the same index, token writes are '
           'under the mutex, INV is terminal, worker i uses buffer i only, the cursor is monotone and hand-back happens only when consumed.'),
 'C18': _c('abstract interpretation: IV pointer reaching each stream constructor vs header IV slots; seed flow',
           'Decides which IV slot reaches stream k (known finding: every stream gets slot 0), that the array is the one stored in / read '
           'from the header, and that the chain starts from the hash of the whole seed.'),
})
NOT_CLAIMED = {}
