NOTE = ('Trusted: clang 14 front end, the wfacts extractor, the wai transfer functions and library models (stdio, memcpy/memset, '
        'std::mutex/unique_lock/condition_variable/thread), C++ memory model for mutex/thread-create/join ordering. '
        'Decides necessary structural conditions of the property on every abstract path, not the run-time behaviour itself.')
CLAIMED = {
 'C03': dict(category='other', technique='abstract interpretation: ownership typestate with inferred rely/guarantee, per thread role',
             text='Decides, on every abstract path of the worker role and of the I/O role, that a chunk buffer is touched only while the '
                  'token value makes the role its exclusive owner (token value tracked as the abstract value of the real field through '
                  'the real wait/set methods; stability across lock release from an inferred rely/guarantee pair), that every entry '
                  'obtained is passed to the cipher step exactly once, that the cursor function is b[now++]/NULL, that a buffer is handed '
                  'back only when consumed, that READY implies a non-empty buffer, and that thread i gets id i and stream i for T=1..16. '
                  'These exclude every way the schedule could influence the output; byte equality itself is not computed.',
             note=NOTE),
}
def _c(tech, text):
    return dict(category='other', technique=tech, text=text, note=NOTE)

CLAIMED.update({
 'C01': _c('abstract interpretation of the chunk load/export code over a remaining-length partition; access-log comparison per thread count',
           'Decides the structural necessary conditions of the round trip: PKCS#7 pad write for every residue, end-of-body table '
           '(FULL/FINAL/NODATA) for encrypt and decrypt over r=0, 0<r<sum aligned/unaligned, r=sum, r>sum, non-empty READY buffers, '
           'export size within the buffer under a valid-padding guard, decrypt body offset = writer header length for every T, '
           'chunk i <-> stream i, the same constant stream count for the encrypting and the decrypting runner, one stream object per worker, '
           'mode steps = SP 800-38A and block functions = FIPS-197 (term conformance). Byte equality of decrypt(encrypt(P)) is not computed.'),
 'C02': _c('abstract interpretation of execute_encrypt from a constructor-built object; ordered stream-access log vs documented layout',
           'Decides, per thread count, that the bytes written before the body tile [0,48+20T) exactly as documented (magic, mode bytes, '
           '38 zeros, T 20-byte IV slots of one array), the body starts at 48+20T, the tag goes to offset 10 last, the IV chain is '
           'H(seed), H(iv[i-1]), one stream per thread in the right direction, padding/end-of-body rules, and nothing writes the input. '
           'The cipher bytes themselves are C09/C10; byte-for-byte equality with a reference is not computed.'),
 'C04': _c('monitor-discipline analysis (lockset, wait-loop leave sets, notify-before-release) + role typestate + exhaustive T enumeration of spawn/join',
           'Decides the monitor discipline that excludes lost wake-ups (token written only under its mutex; every wait in a re-testing '
           'loop with computed leave set; notify_all on every condition variable whose leave set contains the written value before the '
           'mutex is released; leave sets reachable), no READY buffer without blocks, workers exit only on INV, every thread joined for '
           'T=1..16, I/O loop exits only with live counter 0, live counter tied to INV, no load after end of input; no loop of either '
           'role can return to the same state with every decision closed (a failing read is one of the input classes), neither role '
           'ends the process on a path where every library call succeeded, and a further operation in the same process finds the counter '
           'at 0 and the loop state re-established. Liveness under fairness as such is not decided.'),
 'C05': _c('provenance by named file-offset symbols in an abstract run of verify+decrypt; control-dependence gate; comparison completeness',
           'Decides that every file-derived scalar steering processing after the gate lies in the hashed range or is pinned to a constant '
           '(the cipher-mode byte at offset 8 is the recorded known finding), accepted paths hash [48,EOF), output effects are gated on '
           'verify()==0, the tag compare establishes equality of every digest byte, and the hash under the MAC is the standard one (compress '
           'conformance, padding, drivers, file buffer: a degenerate hash lets modifications through). Cryptographic strength is assumed.'),
 'C06': _c('control-dependence gate + comparison completeness + key-byte content flow through the HMAC computation',
           'Decides that decryption output is control-dependent on verify()==0, the compare accepts only with every digest byte equal, '
           'all 16 key bytes reach both hash inputs by content, the key handed to the MAC and to the cipher streams is, byte for byte, the '
           'operation key (named key-byte symbols followed through copies). That a different key gives a different tag is the MAC assumption.'),
 'C08': _c('abstract interpretation of the tag computation with named key bytes; access-log offsets',
           'Decides the RFC 2104 structure by content (K0^ipad || stream-to-EOF, K0^opad || inner digest, length B+L, same hasher) for the '
           'three hash modes, tag offset 10 / hashed range from 48 on both sides, zero-filled tag area, complete compare, the MAC keyed with the '
           '16 bytes of the operation key by content, and the hash functions themselves (compress conformance, padding, drivers, file buffer).'),
 'C12': _c('sibling cross-check of the abstract path sets of execute_verify and execute_decrypt',
           'Decides that both operations return exactly (shared verification returned 0), reach it with the same reads and outcome set, '
           'handle a missing input alike, that verify has no output effect and nothing writes the input stream; that the parser opens no '
           'output file of its own choosing when the operation is verify; and that the verifying and the decrypting runner have the same stream '
           'count unless the verification step is shown not to depend on it.'),
 'C13': _c('ordering analysis of the write list of execute_encrypt per thread count',
           'Decides that the tag write is the single and last output write after the body, preceded by the hash over [48,EOF), and that '
           'every earlier write into [10,48) is zero, so every proper prefix of the write sequence carries a zero/partial tag; with the '
           'complete compare this leaves only the cryptographic assumption. The ordering rules are evaluated on every successful path, also '
           'when the header layout rules fail; no path that reports failure (process-wide flags set by signal handlers are unknowns) has '
           'written a tag; the output file is created or truncated when it is opened.'),
 'C14': _c('abstract interpretation: ownership typestate with inferred rely/guarantee, per thread role',
           'Decides that every buffer field access in either role happens under exclusive ownership of the same index, token writes are '
           'under the mutex, INV is terminal, worker i uses buffer i only, the cursor is monotone and hand-back happens only when consumed; two '
           'streams of one factory write disjoint storage (members, statics); a second operation in the same process enters the I/O loop with the '
           'same loop state (dealing position) as a first one.'),
 'C18': _c('abstract interpretation: IV pointer reaching each stream constructor vs header IV slots; seed flow',
           'Decides which IV slot reaches stream k (known finding: every stream gets slot 0), that the array is the one stored in / read '
           'from the header, that the chain starts from the hash of the whole seed and links slot i-1 to slot i, and that the hash used for it is '
           'SHA-1 (compress conformance, padding for every residue, driver unit sequence), so that every seed byte reaches IV[0]; the CTR counter is a '
           '128-bit increment and the mode steps conform; every rand() that fills the seed comes after srand() in the same parse.'),
})
CLAIMED.update({
 'C07': dict(category='proof', technique='term conformance of the compress functions + symbolic finaliser for all residues + induction over the driver loop + object simulation',
             text='Compress functions equal FIPS 180-4 / RFC 1321 as canonical word terms for free chaining words and message bytes; the finaliser yields '
                  'the standard padding and 64-bit length for every final-block size with a symbolic block count; the string driver is correct by base / '
                  'inductive step / exit step at symbolic iteration and residue; file driver unit sequence; file buffer by inductive invariant (real '
                  'constant) and exhaustive object simulation (reduced constant); initial values, K and output order from first principles.',
             note='Trusted: clang front end, extractor, interpreter and term canonicalisers, spec/sha.py (self-tested against hashlib), fread model. '
                  'Assumes the file buffer is parametric in its unit-count constant, messages < 2^61 bytes, little-endian target.'),
 'C09': dict(category='proof', technique='term conformance: abstract interpretation over hash-consed byte terms vs a FIPS-197 reference built from the text',
             text='The key-schedule constructor and both single-block functions are interpreted over free key / round-key / block bytes; the 176+16+16 '
                  'output terms are identical (canonical xor-of-table DAGs) to those of a reference written from FIPS-197 5.1-5.3; tables equal '
                  'first-principles derivations. Equal canonical terms are equal functions, hence the claim for all 2^128 x 2^128 inputs. The object graph '
                  'of a cipher object releases no storage that an implicit copy would share (round keys in the object or on the heap).',
             note='Trusted: clang front end, extractor, term interpreter (byte-addressed unions, little-endian), canonicaliser, spec/aes.py (self-checked on FIPS-197 C.1).'),
 'C10': dict(category='proof', technique='term conformance of one mode step with the block cipher uninterpreted + exhaustive carry-pattern partition of the counter',
             text='For all ten factory products one runcry step equals the SP 800-38A step as terms over free block/iv bytes (E/D uninterpreted); the '
                  'step touches only block, iv and cipher scratch (no retained pointer, no other member), so the stream claim follows by induction; '
                  'reference decrypt inverts reference encrypt; the CTR counter is a 128-bit big-endian +1 over all 17 carry classes; two streams of '
                  'one factory share no mutable storage; the class the factory builds does not depend on earlier calls.',
             note='Trusted: as C09, plus spec_step in rules/mode_rules.py written from SP 800-38A 6.1-6.5; decryaes inverts encryaes (C09).'),
 'C11': _c('abstract interpretation of verify/decrypt with unknown file bytes and short reads; pipeline arithmetic; finaliser extents for all residues',
           'Decides: no NULL factory result is dereferenced on any path steered by file bytes, the cipher selector reaching the stream factory is '
           'within its non-NULL cases, header reads fit their buffers for every T, no output effect without verify()==0, no READY buffer without '
           'blocks, export size within the buffer, hash finaliser writes stay inside the 64-byte block for all residues, every constant table '
           'subscripted by a value computed from file bytes is subscripted inside its bounds, and success requires the complete tag compare.'),
 'C15': _c('acquire/release pairing on all abstract paths + inventory of mutable statics with a use classification',
           'Decides: singleton released and live counter 0 at every exit of every operation, parser globals reset before each parse, name tables '
           'and default settings never written, any other mutable object with static storage is never read by an operation, no field of the freshly '
           'allocated parameter pack (nor errno) is read before it is written, getopt is fully re-initialised (optind = 0), a second operation '
           'enters the I/O loop with the loop state of a first one, and no operation writes the caller\'s key buffer or settings object.'),
 'C16': _c('abstract interpretation with bit-field terms (encoder); exhaustive shape exploration with prefix pruning (validator); bounds at call sites',
           'Decides: tables are RFC 4648; every encoder output position for lengths 0..19 is alphabet[right 6-bit field] with correct padding and '
           'terminator; the validator accepts exactly 22 symbols + "=="; every accepted key decodes to <= 16 bytes inside the call-site buffers; '
           'the validator sees the whole string and subscripts no table out of range (also for bytes >= 0x80); the decoder output bytes for full '
           'groups, both padded tails and the key shape are the right 8-bit fields of the 24-bit group.'),
 'C17': _c('abstract interpretation of the option parser over all option sequences (getopt forks over the code\'s own option table, widening)',
           'Decides: required fields non-NULL per mode at every successful return, diagnostics on every failure return, validation before narrowing, '
           'no unbounded string write, throwing library calls guarded, default output differs from input, exit status 0 iff the operation result is true, '
           'mode numbers that pass validation are ones the kernel factories know, no decode-table subscript outside the table for any key text.'),
})
NOT_CLAIMED = {}

# clauses added in seeding round 5 (value and sequence slips)
_R5 = {
 'C01': 'No branch of an operation is decided by a byte count after a conversion that cannot hold its range (R01.j); a buffer handed '
        'over after a FULL load is exported whole in every group state (R01.k, relational buffer shape by fixpoint).',
 'C02': 'The length of the output changes by writes only (no ftruncate, R02.h); sizes keep their range (R01.j).',
 'C03': 'A buffer that was loaded FULL is exported whole whatever the group state is when it comes back (R01.k).',
 'C04': 'The loops of the three operations cannot return to a state with every decision closed (a read at end of input delivers '
        'nothing, for ever); a write error reported by ferror cannot end the I/O loop with live workers.',
 'C05': 'Header members are read back from the offsets the writer uses and no accepting path skips the read (R08.r); the unit count of a '
        'completely filled hash buffer fits the members that hold it.',
 'C06': 'The key a successful parse returns was decoded from the argument of the key option (R06.k).',
 'C07': 'The string driver is decided for every length its parameter type can hold (a narrowing conversion that decides the loop is reported).',
 'C08': 'The hash-mode byte used for the tag is the one read from the writer\'s offset on every accepting path (R08.r).',
 'C09': 'A member that the block transform writes is never read in a call before that call wrote it (R09.m; otherwise undecided).',
 'C11': 'The tag engine used twice on one object writes every digest into a buffer that holds it (R11.h); no loop of decrypt/verify can spin; '
        'sizes keep their range (R01.j).',
 'C12': 'No loop of decrypt/verify can spin at end of input (R04.f); sizes keep their range (R01.j).',
 'C17': 'Constant tables subscripted during the parse stay in range (R17.t); floating intervals converted to integers fit the type (R17.v).',
 'C18': 'Arithmetic on rand() stays inside its type (R18.s); a typed seed is read with a width not smaller than the seed array (R18.w).',
}
for _k, _v in _R5.items():
    CLAIMED[_k]['text'] = CLAIMED[_k]['text'] + ' ' + _v


# clauses added in seeding round 6 (language-level traps)
_R6 = {
 'C01': 'Closed over the monitor discipline (M1-M5); no two operands evaluated in unspecified order change the same stream (R01.u); the turn advances round-robin (R02.r).',
 'C02': 'The turn goes from slot t to (t+1) mod T for all 136 (T, t) pairs (R02.r); the hash-mode byte selects the documented class (R08.f).',
 'C03': 'No assert condition has an effect that a release build would lose (R04.n); round-robin turn (R02.r).',
 'C04': 'No assert condition has an effect that a release build would lose (R04.n).',
 'C05': 'The hash-mode byte selects the documented class (R08.f); unspecified evaluation order (R01.u).',
 'C06': 'The hash-mode byte selects the documented class (R08.f).',
 'C08': 'The hash-mode byte selects the documented class (R08.f); unspecified evaluation order (R01.u).',
 'C09': 'No mutable object with static storage in the cipher units is read by the block code (R09.s).',
 'C10': 'No mutable static in the cipher units (R09.s); the IV is not copied with a C-string function; the counter increments from every member value the step itself stores.',
 'C12': 'Unspecified evaluation order (R01.u).',
 'C14': 'No mutable static in the pipeline units carries a value between operations (R14.s); assert conditions (R04.n); round-robin turn (R02.r).',
 'C15': 'Both streams closed on every path, a failing fclose included (R15.k); per-operation allocations of the singleton are released by its destructor (R15.m).',
 'C16': 'In the dialogue the fixed-length decode is reached only with a fresh accepting verdict of the validator (R16.g).',
 'C18': 'The seed argument of the encrypt call in main is the seed member of the parameter pack (R18.m).',
}
for _k, _v in _R6.items():
    CLAIMED[_k]['text'] = CLAIMED[_k]['text'] + ' ' + _v
