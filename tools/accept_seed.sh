#!/bin/bash
# tools/accept_seed.sh <ID> <changeN> [demo-timeout-seconds]
# Confirms a seeded change produced by a sub-agent in /tmp/seedout/<ID>/<changeN>: builds unchanged HEAD and the changed tree in
# scratch worktrees, runs the 36 stable tests on the changed tree, runs the demonstration both ways, and (if everything is as
# claimed) stores it as /verif/seeded/<ID>-<changeN>/ with meta.json extended by what was run.  Scratch is removed.
set -u
ID=$1; CH=$2; TMO=${3:-900}
SRC=${SEEDOUT:-/tmp/seedout}/$ID/$CH
[ -f "$SRC/patch.diff" ] || { echo "no patch in $SRC"; exit 2; }
W=/tmp/acc-$ID-${TAG:-}$CH
git -C /repo worktree remove --force $W >/dev/null 2>&1; rm -rf $W
git -C /repo worktree add -q --detach $W HEAD || exit 2
trap 'git -C /repo worktree remove --force '$W' >/dev/null 2>&1; rm -rf '$W' '$W'.head' EXIT
demo() {  # $1 = built tree, $2 = matching source tree
  if [ -f "$SRC/demo.sh" ]; then (cd "$SRC" && timeout $TMO bash ./demo.sh "$1" "$2"); 
  elif [ -f "$SRC/demo.py" ]; then (cd "$SRC" && timeout $TMO python3 ./demo.py "$1" "$2");
  else echo "no demo"; return 99; fi
}
cmake -G Ninja -S $W -B $W.head -DCMAKE_BUILD_TYPE=Release >/dev/null 2>&1 && ninja -C $W.head >/dev/null 2>&1 || { echo "HEAD build failed"; exit 2; }
demo $W.head $W > $W.head/demo_head.txt 2>&1; DH=$?
git -C $W apply "$SRC/patch.diff" 2>/dev/null || (cd $W && patch -p1 -s --no-backup-if-mismatch < "$SRC/patch.diff") || { echo "patch does not apply"; exit 2; }
cmake -G Ninja -S $W -B $W/_b -DCMAKE_BUILD_TYPE=Release >/dev/null 2>&1 && ninja -C $W/_b >/dev/null 2>&1 || { echo "changed build failed"; exit 2; }
ST=$($(dirname "$0")/run_stable.sh $W/_b 2>&1 | tail -1)
demo $W/_b $W > $W/_b/demo_changed.txt 2>&1; DC=$?
echo "$ID/$CH: demo(HEAD)=$DH demo(changed)=$DC stable: $ST"
if [ $DH -eq 0 ] && [ $DC -ne 0 ] && echo "$ST" | grep -q "failing \[\]"; then
  D=/verif/seeded/$ID-${TAG:-}$CH; mkdir -p $D
  cp "$SRC/patch.diff" $D/; find "$SRC" -maxdepth 1 -type f -size -256k ! -name meta.json -exec cp {} $D/ \;
  tail -c 3000 $W.head/demo_head.txt > $D/demo_on_head.txt; tail -c 3000 $W/_b/demo_changed.txt > $D/demo_on_changed.txt
  python3 - "$SRC/meta.json" "$D/meta.json" "$DH" "$DC" "$ST" <<'PY'
import json,sys
try: m=json.load(open(sys.argv[1]))
except Exception as e: m={'meta_parse_error':str(e)}
m['confirmed']={'demo_exit_on_head':int(sys.argv[3]),'demo_exit_on_changed':int(sys.argv[4]),'stable_suite_on_changed':sys.argv[5],
  'how':'tools/accept_seed.sh: scratch worktrees of /repo HEAD, cmake Release build, 36 stable tests on the changed tree, demonstration run on both trees'}
json.dump(m,open(sys.argv[2],'w'),indent=1,ensure_ascii=False)
PY
  echo "ACCEPTED -> $D"
else
  echo "REJECTED"; tail -5 $W.head/demo_head.txt; echo ---; tail -5 $W/_b/demo_changed.txt
fi
