#!/bin/bash
# run the 36 stable tests in build dir $1; print PASS/FAIL summary
B=$1
cd $B
python3 - <<'PY'
import json,subprocess,sys,re,os
base=json.load(open('/root/.vp/BASELINE.json'))
stable=base['stable_pass']
# run ctest with junit
subprocess.run(['ctest','--test-dir','.','-j8','--timeout','900','--output-junit','junit.xml','-E','Testbig|Testsmall|Testsmode|Testshash'],capture_output=True)
import xml.etree.ElementTree as ET
t=ET.parse('junit.xml').getroot()
res={}
for tc in t.iter('testcase'):
    name=tc.get('name'); ok = tc.get('status')=='run' and tc.find('failure') is None
    res[name]=ok
# gtest-level names: run each binary with --gtest_list? simpler: map Suite::case via gtest output
out={}
for exe in sorted(os.listdir('test')):
    p=os.path.join('test',exe)
    if not (os.access(p,os.X_OK) and os.path.isfile(p)) or exe in ('Testbig','Testsmall','Testsmode','Testshash'): continue
    r=subprocess.run([os.path.abspath(p)],capture_output=True,text=True,cwd='test')
    for m in re.finditer(r'\[\s+(OK|FAILED)\s+\] (\w+)\.(\w+) ',r.stdout):
        out[exe+'::'+m.group(3)]=(m.group(1)=='OK')
    out[exe+'::'+exe]=(r.returncode==0)
bad=[s for s in stable if not out.get(s, res.get(s.split('::')[0], False))]
print('stable',len(stable),'failing',bad)
PY
