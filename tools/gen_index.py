#!/usr/bin/env python3
"""Build mutants/INDEX.json: patch -> {property: expected exit} from naming conventions and the recorded seed matrix.
   mutants/<Cxx>-*.patch     must be reported by Cxx
   mutants/revert-Dn-*.patch must be reported by the properties of that defect
   mutants/OK-*.patch        must be silent for every property
   seeded/<Cxx>-changeN      must be reported by Cxx (and by every property that reported it in seeded/MATRIX.txt)"""
import glob, json, os, re
HERE = os.path.dirname(os.path.dirname(os.path.abspath(__file__)))
os.chdir(HERE)
ALL = ['C%02d' % i for i in range(1, 19)]
REV = {'D1': ['C01', 'C04', 'C11'], 'D2': ['C03', 'C04', 'C14'], 'D4': ['C07', 'C08'], 'D5': ['C11'], 'D6': ['C01', 'C11'],
       'D7': ['C16', 'C17'], 'D8': ['C17'], 'D10': ['C15']}
NEVER = {'mutants/C16-tail4.patch'}      # equivalent variant kept for the record
idx = {}
for p in sorted(glob.glob('mutants/*.patch')):
    b = os.path.basename(p)
    if p in NEVER:
        idx[p] = {q: 0 for q in ALL}
    elif b.startswith('OK-'):
        idx[p] = {q: 0 for q in ALL}
    elif b.startswith('revert-'):
        d = b.split('-')[1]
        idx[p] = {q: 1 for q in REV.get(d, [])}
    else:
        m = re.match(r'(C\d\d)-', b)
        if m:
            idx[p] = {m.group(1): 1}
matrix = {}
if os.path.exists('seeded/MATRIX.txt'):
    for line in open('seeded/MATRIX.txt'):
        parts = line.split()
        if parts:
            matrix[parts[0]] = {x.split(':')[0]: int(x.split(':')[1]) for x in parts[1:]}
# confirmed breaking changes that no check reports (see DESIGN.md 14.3): kept, with no expectation, so that the record is honest
NOT_DETECTED = {'seeded/C15-r3-change1/patch.diff': 'needs std::bad_alloc between two allocations: exceptions from allocation failure are not modelled',
                'seeded/C17-r6-change2/patch.diff': 'size_t wrap inside the diagnostic printer strlog, which the analyses stub (output formatting is not analysed)'}
# confirmed breaking changes on which the own check gives up (exit 2: neither a pass nor a violation), see DESIGN.md 14.5
DECLINED = {'seeded/C09-r5-change1/patch.diff': ('C09', 'the zero-byte mask is a 32-bit subtraction over packed bytes: outside the byte-term language, R09.e/R09.d undecided'),
            'seeded/C09-r5-change2/patch.diff': ('C09', 'memcmp on block bytes against a cache member: outside the term language; R09.m names the member and stays undecided'),
            'seeded/C03-r6-change1/patch.diff': ('C03', 'the thread entry is a lambda: the spawn analysis finds no function entry (lambda captures are not in the facts)'),
            'seeded/C07-change1/patch.diff': ('C07', 'finaliser scratch block moved into a member that keeps bytes 56..63 of the previous digest: the byte is unknown to the interpreter; since round 7 R07.d answers undecided for unknown bytes (it cannot tell earlier object content from a lost library result), see DESIGN 14.10'),
            'seeded/C09-r7-change1/patch.diff': ('C09', 'round keys moved into a std::vector (reserve instead of resize): the key schedule class is no longer recognised, std::vector is outside the model'),
            'seeded/C17-r7-change1/patch.diff': ('C17', 'key validator rewritten with std::find / std::all_of / std::count: library algorithms are outside the model, the validator has no concrete result (R17 declines)')}
json.dump({'not_detected': NOT_DETECTED, 'declined_exit_2': {k: {'property': v[0], 'why': v[1]} for k, v in DECLINED.items()}},
          open('seeded/NOT_DETECTED.json', 'w'), indent=1)
for d in sorted(glob.glob('seeded/*/patch.diff')):
    if d in NOT_DETECTED:
        idx[d] = {}
        continue
    name = os.path.basename(os.path.dirname(d))
    own = name.split('-')[0]
    exp = {own: 1}
    if d in DECLINED and os.path.exists(d):
        exp = {DECLINED[d][0]: 2}
    # (cross-detection by other properties is recorded in seeded/MATRIX.txt for the record; the replay enforces the own property
    # only, so that a later sharpening of a neighbouring rule does not turn into a spurious mismatch)
    idx[d] = exp
# behaviour-preserving refactorings written by independent sub-agents: silent for the properties whose code they touch
AREA = {'aes': ['C02', 'C03', 'C09', 'C10', 'C14'], 'cli': ['C12', 'C15', 'C16', 'C17'], 'driver': ['C02', 'C05', 'C06', 'C08', 'C11', 'C12', 'C13', 'C15', 'C18'],
        'hash': ['C05', 'C07', 'C08', 'C11'], 'hbuf': ['C05', 'C07', 'C08'], 'pipeline': ['C01', 'C03', 'C04', 'C11', 'C14', 'C15']}
AREA.update({'cli2': AREA['cli'], 'driver2': AREA['driver'] + ['C01', 'C14'], 'group2': AREA['pipeline'], 'b642': ['C16', 'C17'],
             'hash2': AREA['hash'] + ['C18'], 'aes2': AREA['aes'] + ['C11'], 'hdr2': ['C02', 'C05', 'C06', 'C08', 'C11', 'C12', 'C13', 'C18']})
AREA['cli'] = AREA['cli'] + ['C06', 'C18']
AREA['cli2'] = AREA['cli']
AREA['driver'] = AREA['driver'] + ['C04']
AREA['driver2'] = AREA['driver2'] + ['C04']
AREA['hdr2'] = AREA['hdr2'] + ['C04']
AREA.update({'cli3': AREA['cli'], 'driver3': AREA['driver2'], 'pipe3': AREA['pipeline'] + ['C12'], 'hash3': AREA['hash2'] + ['C04', 'C06'],
             'aes3': AREA['aes2']})
for _n in ('4', '5'):
    AREA.update({'cli' + _n: AREA['cli'] + ['C13'], 'driver' + _n: AREA['driver2'], 'pipe' + _n: AREA['pipeline'] + ['C12', 'C02'],
                 'hash' + _n: AREA['hash2'] + ['C04', 'C06', 'C02'], 'aes' + _n: AREA['aes2'] + ['C16', 'C17', 'C01', 'C18', 'C06']})
# refactorings the present analysis cannot follow (the check answers ANALYSIS-BROKEN, exit 2, not a violation): kept out of the replay
SKIP = {'equiv/hash-r7-stdarray/patch.diff'}   # std::array / std::copy_n finaliser: R07.d, R11.f undecided (exit 2), see DESIGN 14.10
for d in sorted(glob.glob('equiv/*/patch.diff')):
    if d in SKIP:
        continue
    area = os.path.basename(os.path.dirname(d)).split('-')[0]
    idx[d] = {q: 0 for q in AREA.get(area, ALL)}
json.dump(idx, open('mutants/INDEX.json', 'w'), indent=1, sort_keys=True)
print(len(idx), 'variants indexed')
