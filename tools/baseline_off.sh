#!/bin/bash
# Build /repo's current tree with the verification guard OFF in a scratch directory, run the 36 stable
# ctest cases of /root/.vp/BASELINE.json and compare names and outcomes.  Removes the directory.
set -u
B=$(mktemp -d /var/tmp/wencry-baseline.XXXXXX)
trap 'rm -rf "$B"' EXIT
cmake -G Ninja -S /repo -B "$B" -DCMAKE_BUILD_TYPE=Release > "$B/cmake.log" 2>&1 || { tail -20 "$B/cmake.log"; echo "BASELINE: configure failed"; exit 1; }
ninja -C "$B" > "$B/ninja.log" 2>&1 || { tail -30 "$B/ninja.log"; echo "BASELINE: build failed"; exit 1; }
cd "$B"
python3 - <<'PY'
import json, subprocess, re, os, sys
base = json.load(open('/root/.vp/BASELINE.json'))
stable = base['stable_pass']
skip = ('Testbig', 'Testsmall', 'Testsmode', 'Testshash')
out = {}
for exe in sorted(os.listdir('test')):
    p = os.path.join('test', exe)
    if not (os.path.isfile(p) and os.access(p, os.X_OK)) or exe in skip:
        continue
    try:
        r = subprocess.run([os.path.abspath(p)], capture_output=True, text=True, cwd='test', timeout=900)
    except subprocess.TimeoutExpired:
        out[exe + '::' + exe] = False
        continue
    for m in re.finditer(r'\[\s+(OK|FAILED)\s+\] (\w+)\.(\w+) ', r.stdout):
        out[exe + '::' + m.group(3)] = (m.group(1) == 'OK')
    out[exe + '::' + exe] = (r.returncode == 0)
bad = [s for s in stable if not out.get(s, False)]
print('BASELINE: %d stable cases, %d passing, failing: %s' % (len(stable), len(stable) - len(bad), bad))
sys.exit(1 if bad else 0)
PY
