#!/usr/bin/env python3
"""tools/mkmut.py <name> <file> <old> <new> [<file> <old> <new> ...]  -> mutants/<name>.patch (unified diff against /repo HEAD)"""
import difflib, subprocess, sys, os
name = sys.argv[1]
args = sys.argv[2:]
out = []
for i in range(0, len(args), 3):
    f, old, new = args[i:i + 3]
    src = subprocess.run(['git', '-C', '/repo', 'show', 'HEAD:' + f], capture_output=True).stdout.decode('utf-8')
    old = old.encode().decode('unicode_escape') if '\\n' in old else old
    new = new.encode().decode('unicode_escape') if '\\n' in new else new
    if src.count(old) != 1:
        print('mkmut: pattern occurs %d times in %s: %r' % (src.count(old), f, old)); sys.exit(1)
    dst = src.replace(old, new)
    for ln in difflib.unified_diff(src.splitlines(True), dst.splitlines(True), 'a/' + f, 'b/' + f):
        out.append(ln if ln.endswith('\n') else ln + '\n\\ No newline at end of file\n')
p = os.path.join(os.path.dirname(os.path.dirname(os.path.abspath(__file__))), 'mutants', name + '.patch')
open(p, 'w').write(''.join(out))
print(p)
