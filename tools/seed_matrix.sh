#!/bin/bash
# tools/seed_matrix.sh [seed-dir...]  : run the check of the seeded property (plus $EXTRA ids) on each seeded change
cd "$(dirname "$0")/.."
if [ $# -eq 0 ]; then set -- seeded/*; fi
for d in "$@"; do
  [ -f "$d/patch.diff" ] || continue
  P=$(basename "$d" | cut -d- -f1)
  [ -f rules/$(echo $P | tr A-Z a-z).py ] || { echo "== $(basename $d): no check for $P yet"; continue; }
  echo "== $(basename $d): $(tools/mutant.sh $d/patch.diff $P ${EXTRA:-} | cut -c1-300 | tr '\n' ';')"
done
