#!/bin/bash
# tools/seed_matrix.sh [seed-dir...]  : run the registered checks of the seeded property (and optional extra ids) on each seeded change
cd "$(dirname "$0")/.."
for d in "${@:-seeded/*}"; do
  [ -f $d/patch.diff ] || continue
  P=$(basename $d | cut -d- -f1)
  IDS="$P ${EXTRA:-}"
  echo "== $(basename $d): $(tools/mutant.sh $d/patch.diff $IDS | cut -c1-330 | tr '\n' ';')"
done
