#!/bin/bash
# tools/full_matrix.sh <out-file> <patch...> : every registered check on every given patch (8 patches in parallel); one line per patch
cd "$(dirname "$0")/.."
OUT=$1; shift
IDS="C01 C02 C03 C04 C05 C06 C07 C08 C09 C10 C11 C12 C13 C14 C15 C16 C17 C18"
export IDS
printf '%s\n' "$@" | xargs -P ${PAR:-8} -I{} bash -c 'r=$(tools/mutant.sh {} $IDS | awk "{printf \"%s:%s \", \$1, substr(\$2,6)}"); echo "$(basename $(dirname $(dirname {})))/$(basename $(dirname {})) $r"' | sort > "$OUT"
