"""Extent rule shared by the driver and parser analyses (R11.g / R17.h): every memcpy / memset / fread / fwrite / indexed store on
the analysed paths whose extent is decided (concrete, or linear in INPUT symbols: file bytes, the size argument, numbers and string
lengths from the command line, key bytes) stays inside the array object it addresses.  Objects: arrays declared as locals,
fields, globals, and new[] allocations with a decided element count.  An extent that is not decided this way (a widened loop
symbol, an unknown pointer) is counted as 'not decided here' and is never reported."""
from wai.values import *
from wai.facts import loc as nloc

INPUT_PREFIXES = ('$file', '$fsize', '$atoi', '$strlen', '$strnlen', '$key', '$argc', '$w')


def _input_only(v):
    if v[0] == 'c':
        return True
    if v[0] == 'l':
        return all(str(s).startswith(INPUT_PREFIXES) for s, _ in v[2])
    return False


class BoundsListener:
    def __init__(self, prog, tagger=None):
        self.prog = prog
        self.tagger = tagger or (lambda: None)
        self.viol = []          # (tag, kind, where, function, detail)
        self.per_tag = {}
        self.checked = 0
        self.undecided = 0
        self._fields = {}
        for r in prog.records.values():
            for x in r['fields']:
                self._fields[x['d'][2:]] = prog.type(x['t'])

    # ---- capacities
    def elsize(self, tkey):
        t = self.prog.type(tkey) if tkey is not None else None
        return (t or {}).get('size') or 1

    def on_new(self, I, st, node, obj, count, at):
        es = (at or {}).get('size') or 1
        st.comps[('cap', obj)] = (count if count is not None else C(1), es)

    def on_decl(self, I, st, decl, loc, node, fr):
        t = I.prog.type(decl['t'])
        if t and t.get('k') == 'array' and t.get('n'):
            st.comps[('cap', loc[0])] = (C(t['n']), self.elsize(t.get('el')))

    def room(self, I, st, p):
        """(index value, element count value, element size) of the array that pointer p addresses, or None."""
        if p is None or p[0] != 'p' or not p[2]:
            return None
        obj, path = p[1], p[2]
        idx = path[-1]
        if isinstance(idx, str) or (isinstance(idx, tuple) and idx and idx[0] in ('$B', '$b', '$C')):
            return None
        iv = C(idx) if isinstance(idx, int) else idx
        if not is_int(iv):
            return None
        cont = path[:-1]
        if cont and isinstance(cont[-1], str):
            t = self._fields.get(cont[-1])
            if t and t.get('k') == 'array' and t.get('n'):
                return iv, C(t['n']), self.elsize(t.get('el'))
            return None
        if not cont:
            cap = st.comps.get(('cap', obj))
            if cap is not None:
                return iv, cap[0], cap[1]
            if isinstance(obj, str) and obj.startswith('G:'):
                g = self.prog.globals.get(obj[2:])
                t = self.prog.type(g['t']) if g else None
                if t and t.get('k') == 'array' and t.get('n'):
                    return iv, C(t['n']), self.elsize(t.get('el'))
        return None

    def check(self, I, st, kind, p, size, node, unit_bytes=True):
        """size: abstract byte count (unit_bytes) or element count"""
        rm = self.room(I, st, p)
        if rm is None or size is None or not is_int(size):
            self.undecided += 1
            return
        iv, cnt, es = rm
        if not (_input_only(iv) and _input_only(size) and _input_only(cnt)):
            self.undecided += 1
            return
        ri, rs, rc = rng(iv, st.sym), rng(size, st.sym), rng(cnt, st.sym)
        if ri is None or rs is None or rc is None:
            self.undecided += 1
            return
        self.checked += 1
        self.per_tag[self.tagger()] = self.per_tag.get(self.tagger(), 0) + 1
        end_hi = ri[1] * es + (rs[1] if unit_bytes else rs[1] * es)
        cap_lo = rc[0] * es
        if end_hi > cap_lo or ri[0] < 0:
            fn = I.frames[-1].fn['q'] if I.frames else '?'
            self.viol.append((self.tagger(), kind, nloc(node) if isinstance(node, dict) else str(node), fn,
                              '%s of up to %d byte(s) at element %s of %s: the object has %d byte(s)' % (
                                  kind, rs[1] if unit_bytes else rs[1] * es, show(iv), show(p), cap_lo)))

    # ---- events
    def on_memcpy(self, I, st, node, dst, src, size):
        self.check(I, st, 'memcpy write', dst, size, node)
        self.check(I, st, 'memcpy read', src, size, node)

    def on_memset(self, I, st, node, dst, val, size):
        self.check(I, st, 'memset', dst, size, node)

    def on_fread(self, I, st, node, root, pos, size, dst, got):
        self.check(I, st, 'fread into', dst, size, node)

    def on_fwrite(self, I, st, node, root, pos, size, src, fval):
        self.check(I, st, 'fwrite from', src, size, node)

    def on_load(self, I, st, loc, val, node):
        if loc is None or not loc[1]:
            return
        idx = loc[1][-1]
        if isinstance(idx, str) or (isinstance(idx, tuple) and idx and idx[0] in ('$B', '$b', '$C', '$def', '$dyn')):
            return
        self.check(I, st, 'load', P(loc[0], loc[1]), C(1), node, unit_bytes=False)

    def on_store(self, I, st, loc, val, node):
        if loc is None or not loc[1]:
            return
        idx = loc[1][-1]
        if isinstance(idx, str) or (isinstance(idx, tuple) and idx and idx[0] in ('$B', '$b', '$C', '$def', '$dyn')):
            return
        self.check(I, st, 'store', P(loc[0], loc[1]), C(1), node, unit_bytes=False)
