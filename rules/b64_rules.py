"""C16: base64 tables, encoder against RFC 4648 for every length class (symbolic bytes, bit-field indices), key validator
and decoder over the exact set of accepted 24-character shapes, call-site lengths and buffer sizes."""
from wai import interp, models
from wai.facts import AnalysisBroken, walk, strip, loc as nloc
from wai.values import *

ALPHABET = 'ABCDEFGHIJKLMNOPQRSTUVWXYZabcdefghijklmnopqrstuvwxyz0123456789+/'     # RFC 4648 table 1
IN = ('ext', 'b64in')
OUTB = ('ext', 'b64out')


def fkey(fn):
    return '%s::%s' % (fn['file'], fn['q'])


def m_isalnum(I, st, fr, n, this, args, an):
    v = args[0]
    if v[0] == 'c':
        c = v[1]
        return [(st, C(1 if (48 <= c <= 57 or 65 <= c <= 90 or 97 <= c <= 122) else 0))]
    return [(st, R(0, 1))]


class B64Rules:
    def __init__(self, prog, rec):
        self.prog, self.rec = prog, rec
        fs = prog.by_q
        try:
            self.enc = prog.fn('hex_to_base64')
            self.dec = prog.fn('base64_to_hex')
            self.val = prog.fn('is_valid_b64')
        except AnalysisBroken:
            # fall back on signatures: (const u8*, int, u8*) -> bool twice, (const u8*, int) -> bool
            raise
        self.b64 = prog.globals.get('b64_tab', {}).get('value')
        self.hex = prog.globals.get('hex_tab', {}).get('value')
        self.alpha_fn = None
        self.alpha_where = (prog.globals.get('b64_tab') or {}).get('file')
        if not isinstance(self.b64, list):
            self.find_alphabet_function()
        if not isinstance(self.b64, list) or not isinstance(self.hex, list):
            raise AnalysisBroken('base64 tables not found')

    def find_alphabet_function(self):
        """The alphabet as a function of the 6-bit value instead of a table: the one-integer-parameter function the encoder calls for
        every output symbol.  Evaluated (abstractly, on constants) over 0..255; used as the table alphabet[x & 63] when that is what it is
        on the whole range, else as a table on 0..63 only."""
        prog = self.prog
        cands = {}
        for n in walk(self.enc['body']):
            if n['k'] == 'CallExpr' and n.get('callee', {}).get('m') in prog.functions and len(n.get('args', [])) == 1:
                g = prog.functions[n['callee']['m']]
                if len(g['params']) == 1 and prog.type(g['params'][0]['t']).get('k') == 'int' and prog.type(g['ret']).get('k') == 'int':
                    cands[g['id']] = g
        if len(cands) != 1:
            return
        g = next(iter(cands.values()))
        tab = []
        for x in range(256):
            I = interp.Interp(prog, models=self.mdl())
            r = I.run(g, interp.State(), args=[C(x)])
            if len(r) != 1 or r[0][1][0] != 'c':
                return
            tab.append(r[0][1][1] & 0xff)
        self.alpha_fn = g
        self.alpha_masked = all(tab[x] == tab[x & 63] for x in range(256))
        self.b64 = tab[:64]
        self.alpha_where = g['file']

    def encoder_models(self, I):
        mdl = I.models
        if self.alpha_fn is not None:
            B = self

            def m_alpha(I2, st, fr, n, this, args, an):
                a = args[0]
                if B.alpha_masked:
                    a = binop('&', a, C(63), st.sym)
                r = rng(a, st.sym) if is_int(a) else None
                if a[0] == 'c':
                    return [(st, C(B.b64[a[1] & 63]))]
                if r is None or r[0] < 0 or r[1] > 63:
                    return None
                return [(st, ('tl', 'b64_tab', a))]
            mdl[self.alpha_fn['q']] = m_alpha

    def mdl(self):
        m = dict(models.STD_MODELS)
        m['isalnum'] = m_isalnum
        m['std::isalnum'] = m_isalnum
        return m

    # ------------------------------------------------------------------ tables
    def tables(self):
        rec = self.rec
        where = self.alpha_where
        ok = len(self.b64) == 64 and bytes(self.b64).decode('latin-1') == ALPHABET
        rec.ob('R16.t', 'R16.t@b64_tab', ok, where, 'b64_tab is the RFC 4648 alphabet: %s' % ('yes' if ok else 'NO'))
        inv = [255] * len(self.hex)
        for i, ch in enumerate(ALPHABET):
            if ord(ch) < len(inv):
                inv[ord(ch)] = i
        ok2 = len(self.hex) == 128 and self.hex == inv
        rec.ob('R16.t', 'R16.t@hex_tab', ok2, where, 'hex_tab[c] is the index of c in the alphabet for the 64 symbols and 255 elsewhere (128 entries): %s' % ('yes' if ok2 else 'NO'))

    def locale_fixed(self):
        """R16.l: the alphabet predicate uses isalnum, whose meaning depends on the global C locale; the exploration above is
        made for the "C" locale, which is what the process runs in as long as nothing calls setlocale / std::locale::global."""
        prog, rec = self.prog, self.rec
        uses_ctype = any(nd['k'] == 'CallExpr' and (nd.get('callee', {}).get('q') or '').split('::')[-1] in ('isalnum', 'isalpha', 'isdigit', 'isupper', 'islower')
                         for g in prog.functions.values() for nd in walk(g['body']))
        bad = []
        for g in prog.functions.values():
            for nd in walk(g['body']):
                if nd['k'] in ('CallExpr', 'CXXMemberCallExpr') and (nd.get('callee', {}).get('q') or '') in ('setlocale', 'std::setlocale', 'std::locale::global', 'uselocale'):
                    a = nd.get('args', [])
                    lit = None
                    if len(a) >= 2:
                        for x in walk(a[1]):
                            if x['k'] == 'StringLiteral':
                                lit = x.get('s')
                    if lit not in ('C', 'POSIX'):
                        bad.append((g, nd))
        for g, nd in bad:
            rec.ob('R16.l', 'R16.l@%s::locale-changed' % fkey(g), False, nloc(nd),
                   'the global locale is changed here: in an 8-bit locale isalnum() accepts bytes >= 0x80 as key characters (and they index past the decode table)')
        rec.ob('R16.l', 'R16.l@C-locale', not bad or not uses_ctype, self.alpha_where or '',
               'character classification (%s) runs in the "C" locale: no call changes the global locale (%d call(s) found)' % ('used by the key validator' if uses_ctype else 'not used', len(bad)))

    # ------------------------------------------------------------------ encoder
    def encoder(self):
        prog, rec = self.prog, self.rec
        f = self.enc
        where = '%s:%s' % (f['file'], f['line'])
        bad = []
        total = 0
        for n in range(0, 20):
            I = interp.Interp(prog, models=self.mdl())
            I.concrete_loops = True
            I.name_intervals = False
            # the facts loader hands out the same list object for the table
            I.symbolic_tables = {id(self.b64): 'b64_tab'}
            self.encoder_models(I)
            st = interp.State()
            for i in range(n):
                st.sym['x%d' % i] = (0, 255)
                st.mem[(IN, (i,))] = sym('x%d' % i)
            res = I.run(f, st, args=[P(IN, (0,)), C(n), P(OUTB, (0,))])
            rec.saw(I)
            if len(res) != 1 or I.unmodelled:
                bad.append((n, 'evaluation: %d paths %s' % (len(res), I.unmodelled[:1])))
                continue
            s = res[0][0]
            groups = (n + 2) // 3
            for k in range(4 * groups + 1):
                total += 1
                got = s.mem.get((OUTB, (k,)))
                if k == 4 * groups:
                    want = C(0)
                else:
                    g3, j = divmod(k, 4)
                    have = min(3, n - 3 * g3)           # input bytes in this group
                    if j > have:
                        want = C(ord('='))
                    else:
                        h = L(0, {('x%d' % (3 * g3 + t)): (1 << (8 * (2 - t))) for t in range(have)})
                        want = ('tl', 'b64_tab', ('bf', h, 18 - 6 * j, 6))
                if self.norm(got, s.sym) != self.norm(want, s.sym):
                    bad.append((n, 'output[%d] is %s, RFC 4648 says %s' % (k, show(got) if got else 'unset', show(want))))
                    break
            extra = [k for k in s.mem if k[0] == OUTB and isinstance(k[1][0], int) and k[1][0] > 4 * groups]
            if extra:
                bad.append((n, 'writes beyond the terminator at %d' % (4 * groups)))
        rec.ob('R16.c', 'R16.c@%s::rfc4648-encoding' % fkey(f), not bad, where,
               'for input lengths 0..19 (all three length classes, symbolic bytes): symbol j of group g = alphabet[bits of the 24-bit group], "=" padding, NUL terminator at 4*ceil(n/3): %s' % (
                   'yes (%d output positions)' % total if not bad else 'NO: length %d: %s' % bad[0]))

    def norm(self, v, symr):
        if v is None:
            return None
        if v[0] == 'tl':
            idx = v[2]
            if idx[0] == 'shr':
                r = rng(idx, symr)
                if r is not None and r[1] < 64:
                    idx = ('bf', idx[1], idx[2], 6)
            elif idx[0] == 'l':
                idx = ('bf', idx, 0, 6)
            if idx[0] == 'bf':
                base, sh, w = idx[1], idx[2], idx[3]
                pa = lin_parts(base)
                while sh > 0 and pa is not None and pa[0] % 2 == 0 and all(c % 2 == 0 for c in pa[1].values()):
                    pa = (pa[0] // 2, {k: c // 2 for k, c in pa[1].items()})
                    sh -= 1
                if pa is not None:
                    idx = ('bf', L(pa[0], pa[1]), sh, w)
            return ('tl', v[1], idx)
        return v

    # ------------------------------------------------------------------ validator / decoder
    def uses_only_predicates(self, f, allowed_extra=()):
        """Class uniformity: elements of the input array are used only in comparisons with constants, as argument of the
        alphabet predicate, or as index of the decode table."""
        p0 = f['params'][0]['id']
        parents = {}

        def rec_(n, par):
            if isinstance(n, dict):
                if 'k' in n:
                    parents[n['_id']] = par
                    par = n
                for k, v in n.items():
                    if not k.startswith('_') and isinstance(v, (dict, list)):
                        rec_(v, par)
            elif isinstance(n, list):
                for x in n:
                    rec_(x, par)
        rec_(f['body'], None)
        bad = []

        def ctx_ok(node, depth=0):
            cur = node
            par = parents.get(cur['_id'])
            while par is not None and par['k'] in ('ImplicitCastExpr', 'CStyleCastExpr'):
                cur, par = par, parents.get(par['_id'])
            if par is None or par['k'] == 'DeclStmt':
                # initialiser of a local: the local's uses must all be allowed
                for d in walk(f['body']):
                    if d['k'] == 'DeclStmt':
                        for x in d['decls']:
                            ini = x.get('init')
                            if ini is not None and any(y is cur or y.get('_id') == cur['_id'] for y in walk(ini)) and depth < 2:
                                t = self.prog.type(x['t'])
                                if t.get('k') not in ('int', 'bool'):
                                    return False
                                uses = [u for u in walk(f['body']) if u['k'] == 'DeclRefExpr' and u.get('d') == x['id']]
                                return all(ctx_ok(u, depth + 1) for u in uses)
                return False
            if par['k'] == 'BinaryOperator' and par['op'] in ('==', '!='):
                other = par['rhs'] if par['lhs'] is cur or par['lhs'].get('_id') == cur['_id'] else par['lhs']
                return 'cv' in other or 'cv' in strip(other)
            if par['k'] == 'CallExpr':
                return True
            if par['k'] == 'ArraySubscriptExpr' and strip(par['base']).get('glob'):
                return True
            return False
        for n in walk(f['body']):
            if n['k'] == 'ArraySubscriptExpr' and strip(n['base']).get('d') == p0:
                if not ctx_ok(n):
                    bad.append(nloc(n))
        return bad

    def accepted_shapes(self):
        """Exact accepted set of the validator for length 24 as class strings over {A (alphabet), = , ? (other)}, by DFS with
        prefix pruning on representative strings (valid because of class uniformity)."""
        prog = self.prog
        f = self.val
        REP = {'A': ord('Q'), '=': ord('='), '?': ord('*'), 'H': 0x80, 'Z': 0}
        self.val_oob = []
        # every character the validator (or a function it calls) compares with gets a class of its own, unless it is a member
        # of the alphabet: "other ASCII" is uniform only apart from the characters the code singles out
        extra = ''
        seen_fn, todo = set(), [f]
        while todo:
            g = todo.pop()
            if g['id'] in seen_fn:
                continue
            seen_fn.add(g['id'])
            for nd in walk(g['body']):
                if nd['k'] in ('CallExpr',) and nd.get('callee', {}).get('m') in prog.functions:
                    todo.append(prog.functions[nd['callee']['m']])
                if nd['k'] == 'BinaryOperator' and nd.get('op') in ('==', '!=', '<', '<=', '>', '>='):
                    for side in (nd['lhs'], nd['rhs']):
                        cv = strip(side).get('cv', side.get('cv'))
                        if isinstance(cv, int) and 0 < cv < 128 and chr(cv) not in ALPHABET and chr(cv) not in '=*' and chr(cv) not in extra and chr(cv).isprintable():
                            extra += chr(cv)
                if nd['k'] == 'CaseStmt':
                    cv = (nd.get('val') or {}).get('cv')
                    if isinstance(cv, int) and 0 < cv < 128 and chr(cv) not in ALPHABET and chr(cv) not in '=*' and chr(cv) not in extra and chr(cv).isprintable():
                        extra += chr(cv)
        extra = ''.join(c for c in extra if c not in 'A?HZ')[:12]
        for c in extra:
            REP[c] = ord(c)
        self.val_extra_classes = extra
        accepted = []
        runs = [0]

        def run(s, ln=24):
            I = interp.Interp(prog, models=self.mdl())
            I.concrete_loops = True
            st = interp.State()
            for i, ch in enumerate(s):
                st.mem[(IN, (i,))] = C(REP[ch])
            st.mem[(IN, (len(s),))] = C(0)
            maxi = [-1]

            class Lst:
                def on_load(self, I2, st2, loc, val, node):
                    if loc and loc[0] == IN and isinstance(loc[1][0], int):
                        maxi[0] = max(maxi[0], loc[1][0])
            I.listeners.append(Lst())
            r = I.run(f, st, args=[P(IN, (0,)), C(ln)])
            runs[0] += 1
            if runs[0] > 4000:
                raise AnalysisBroken('validator exploration does not stay small (more than 4000 evaluations): prefix pruning is not effective on this code')
            if I.oob:
                # a constant table is subscripted outside its bounds: whatever is read there decides.  Recorded (R16.b) and the
                # branch is not explored further
                self.val_oob.append((s, I.oob[0]))
                return False, -1
            if len(r) != 1 or r[0][1][0] != 'c':
                raise AnalysisBroken('validator not deterministic on a concrete string')
            return bool(r[0][1][1]), maxi[0]

        class _Enough(Exception):
            pass

        def dfs(prefix):
            if len(prefix) == 24:
                acc, _ = run(prefix)
                if acc:
                    accepted.append(prefix)
                    if len(accepted) > 32:
                        raise _Enough()     # far more than the one shape the property allows: no need to list them all
                return
            for ch in 'A=?H' + extra:
                p = prefix + ch
                acc, last = run(p + 'A' * (24 - len(p)))
                if not acc and last < len(p):
                    continue        # rejected while still inside the prefix: every extension is rejected
                dfs(p)
        try:
            dfs('')
        except _Enough:
            pass
        # other lengths are rejected outright (length test does not look at the characters)
        lens_ok = all(not run('A' * 22 + '==' if ln == 24 else ('A' * max(0, ln - 2) + '==')[:ln], ln)[0] for ln in (0, 4, 8, 12, 16, 20, 23, 25, 28, 32) if ln != 24)
        return accepted, runs[0], lens_ok

    def validator_decoder(self):
        prog, rec = self.prog, self.rec
        for f in (self.val, self.dec):
            bad = self.uses_only_predicates(f)
            rec.ob('R16.u', 'R16.u@%s::class-uniform' % fkey(f), (None if bad else True), '%s:%s' % (f['file'], f['line']),
                   'input characters are used only in comparisons with constants, the alphabet predicate and the decode-table index%s' % (
                       '' if not bad else ' - other use at %s: representative-based exploration is not justified' % bad[:2]))
        shapes, runs, lens_ok = self.accepted_shapes()
        want = ['A' * 22 + '==']
        ok = shapes == want and lens_ok
        rec.ob('R16.b', 'R16.b@%s::table-subscripts-in-range' % fkey(self.val), not self.val_oob, '%s:%s' % (self.val['file'], self.val['line']),
               'no constant table is subscripted out of range while validating (classes: alphabet, "=", other ASCII, bytes >= 0x80): %s' % (
                   'yes' if not self.val_oob else 'NO: index %d of a %d-entry table for a string with a byte >= 0x80' % self.val_oob[0][1]))
        rec.ob('R16.a', 'R16.a@%s::accepts-exactly-22-symbols-and-two-pads' % fkey(self.val), ok, '%s:%s' % (self.val['file'], self.val['line']),
               'accepted 24-character shapes (A = alphabet symbol, ? = other ASCII, H = byte >= 0x80, and one class per character the code compares with: %r): %s; other lengths rejected: %s (%d validator evaluations)' % (getattr(self, 'val_extra_classes', ''), shapes[:6], lens_ok, runs))
        # decoder on every accepted shape: bytes written and table indices
        worst = 0
        det = []
        for s in shapes:
            I = interp.Interp(prog, models=self.mdl())
            I.concrete_loops = True
            st = interp.State()
            for i, ch in enumerate(s):
                st.mem[(IN, (i,))] = C({'A': ord('Q'), '=': ord('='), '?': ord('*'), 'H': 0x80}.get(ch, ord(ch)))
            idxs = []

            class Lst:
                def on_load(self, I2, st2, loc, val, node):
                    if loc and loc[0] == 'G:hex_tab' and loc[1]:
                        idxs.append(loc[1][0])
            I.listeners.append(Lst())
            r = I.run(self.dec, st, args=[P(IN, (0,)), C(24), P(OUTB, (0,))])
            rec.saw(I)
            for s2, v in r:
                written = [k[1][0] for k in s2.mem if k[0] == OUTB and isinstance(k[1][0], int)]
                worst = max([worst] + [w + 1 for w in written])
            if any((not isinstance(i, int)) or i >= len(self.hex) for i in idxs):
                det.append('decode-table index out of range for shape %s' % s)
        sizes = self.key_buffers()
        okb = bool(sizes) and all(worst <= z for _, z in sizes) and not det
        rec.ob('R16.a', 'R16.a@%s::accepted-keys-decode-inside-the-key-buffer' % fkey(self.dec), okb, '%s:%s' % (self.dec['file'], self.dec['line']),
               'over all accepted shapes the decoder writes at most %d bytes; key buffers at the call sites hold %s %s' % (worst, [z for _, z in sizes], det[:1]))
        # R16.d: the printed key (encoding of 16 bytes) is 22 symbols + "=="
        rec.ob('R16.d', 'R16.d@%s::printed-key-is-accepted' % fkey(self.val), 'A' * 22 + '==' in shapes, '%s:%s' % (self.val['file'], self.val['line']),
               'the encoding of a 16-byte key (22 symbols and "==", by R16.c) is in the accept set')

    def key_buffers(self):
        """(call site, allocation size) for every call of the decoder in product code; also checks length 24 and validator length."""
        prog, rec = self.prog, self.rec
        out = []
        for f in prog.functions.values():
            for n in walk(f['body']):
                if n['k'] == 'CallExpr' and n['callee'].get('m') == self.dec['id']:
                    ln = n['args'][1].get('cv')
                    dst = strip(n['args'][2])
                    size = None
                    if dst.get('k') == 'DeclRefExpr':
                        for d in walk(f['body']):
                            if d['k'] == 'DeclStmt':
                                for x in d['decls']:
                                    if x['id'] != dst['d']:
                                        continue
                                    xt = prog.type(x.get('t')) or {}
                                    if xt.get('k') == 'array' and xt.get('n'):
                                        # a local array of known extent
                                        size = xt['n'] * ((prog.type(xt.get('el')) or {}).get('size') or 1)
                                    elif x.get('init'):
                                        ne = strip(x['init'])
                                        if ne.get('k') == 'CXXNewExpr' and ne.get('arr') is not None:
                                            size = ne['arr'].get('cv')
                    rec.ob('R16.a', 'R16.a@%s::decode-call' % fkey(f), ln == 24 and size is not None, nloc(n),
                           'key decoded with length %s into a buffer of %s bytes' % (ln, size))
                    if size is not None:
                        out.append((nloc(n), size))
                if n['k'] == 'CallExpr' and n['callee'].get('m') == self.val['id']:
                    a0, a1 = strip(n['args'][0]), strip(n['args'][1])
                    def is_len_of(e, strdecl):
                        e = strip(e)
                        if e.get('k') == 'ParenExpr' and e.get('e'):
                            return is_len_of(e['e'], strdecl)
                        if e.get('k') == 'CallExpr' and e['callee'].get('q') in ('strlen', 'std::strlen'):
                            return strip(e['args'][0]).get('d') == strdecl and strdecl is not None
                        if e.get('k') == 'DeclRefExpr':
                            # a local that is initialised with the strlen of the same string and assigned nowhere else
                            for d in walk(f['body']):
                                if d['k'] == 'DeclStmt':
                                    for x in d['decls']:
                                        if x['id'] == e.get('d') and x.get('init') is not None:
                                            assigned = any(m['k'] in ('BinaryOperator', 'CompoundAssignOperator', 'UnaryOperator')
                                                           and (m.get('op') in ('=', '++', '--') or m['k'] == 'CompoundAssignOperator')
                                                           and strip(m.get('lhs') or m.get('e') or {}).get('d') == e.get('d') for m in walk(f['body']))
                                            return (not assigned) and is_len_of(x['init'], strdecl)
                        return False
                    ok = is_len_of(a1, a0.get('d'))
                    rec.ob('R16.v', 'R16.v@%s::validator-sees-whole-string' % fkey(f), ok, nloc(n),
                           'validator called with %s' % ('the strlen of the same string' if ok else 'a length that is not the strlen of the validated string (a longer string with a valid prefix passes)'))
        return out


def _decoder(self):
    """R16.e: the decoder against RFC 4648 for groups of four symbols and the two padded tails, with every symbol an arbitrary
    member of the alphabet (symbolic value v in 0..63, character b64_tab[v]); the key shape (22 symbols + "==") included."""
    prog, rec = self.prog, self.rec
    f = self.dec
    where = '%s:%s' % (f['file'], f['line'])
    TL_VALUES['b64_tab'] = frozenset(self.b64)
    bad = []
    n = 0
    shapes = ['AAAA', 'AAAAAAAA', 'AAA=', 'AA==', 'AAAAAAA=', 'AAAAAA==', 'A' * 22 + '==', 'A' * 12]
    for shp in shapes:
        I = interp.Interp(prog, models=self.mdl())
        I.concrete_loops = True
        I.name_intervals = False
        gh = prog.globals['hex_tab']['value']
        I.symbolic_tables = {id(self.b64): 'b64_tab', id(gh): 'hex_tab'}
        I.inverse_tables = {'hex_tab': 'b64_tab'}
        st = interp.State()
        vals = []
        for i, ch in enumerate(shp):
            if ch == 'A':
                st.sym['v%d' % i] = (0, 63)
                st.mem[(IN, (i,))] = ('tl', 'b64_tab', sym('v%d' % i))
                vals.append(sym('v%d' % i))
            else:
                st.mem[(IN, (i,))] = C(ord('='))
                vals.append(None)
        res = I.run(f, st, args=[P(IN, (0,)), C(len(shp)), P(OUTB, (0,))])
        rec.saw(I)
        n += 1
        if len(res) != 1 or I.unmodelled or I.oob:
            bad.append((shp, 'evaluation: %d paths%s%s' % (len(res), ' unmodelled %s' % I.unmodelled[:1] if I.unmodelled else '', ' table index out of range %s' % I.oob[:1] if I.oob else '')))
            continue
        s2, rv = res[0]
        if truth(rv, s2.sym) is not True:
            bad.append((shp, 'returns %s for a well-formed string' % show(rv)))
            continue
        # expected bytes
        want = []
        for g in range(0, len(shp), 4):
            grp = vals[g:g + 4]
            k = sum(1 for x in grp if x is not None)
            h = L(0, {('v%d' % (g + t)): (1 << (6 * (3 - t))) for t in range(k)})
            nbytes = {4: 3, 3: 2, 2: 1}.get(k, 0)
            for j in range(nbytes):
                want.append(('byte', h, 2 - j))
        for i, w in enumerate(want):
            got = s2.mem.get((OUTB, (i,)))
            if self.normb(got, s2.sym) != self.normb(w, s2.sym):
                bad.append((shp, 'output byte %d is %s, RFC 4648 says %s' % (i, show(got) if got else 'unset', show(w))))
                break
        extra = [k for k in s2.mem if k[0] == OUTB and isinstance(k[1][0], int) and k[1][0] >= len(want)]
        if extra:
            bad.append((shp, 'writes %d byte(s) beyond the %d decoded bytes' % (len(extra), len(want))))
    rec.ob('R16.e', 'R16.e@%s::rfc4648-decoding' % fkey(f), not bad, where,
           'for %d shapes (full groups, both padded tails, the 24-character key shape) with every symbol an arbitrary alphabet member: decoded bytes are the right 8-bit fields of the 24-bit group value, nothing else is written, the call reports success: %s' % (
               n, 'yes' if not bad else 'NO: %r: %s' % bad[0]))


def _normb(self, v, symr):
    """byte k of a linear value, whatever spelling the engine produced."""
    if v is None:
        return None
    if v[0] == 'bf' and v[3] == 8 and v[2] % 8 == 0:
        v = ('byte', v[1], v[2] // 8)
    if v[0] == 'shr' and v[2] % 8 == 0:
        r = rng(v, symr)
        if r is not None and r[1] <= 255:
            v = ('byte', v[1], v[2] // 8)
    if v[0] == 'l':
        r = rng(v, symr)
        if r is not None and 0 <= r[0] and r[1] <= 255:
            v = ('byte', v, 0)
    if v[0] == 'byte':
        base, k = v[1], v[2]
        pa = lin_parts(base)
        # divide out whole bytes that are provably zero at the bottom
        while k > 0 and pa is not None and pa[0] % 256 == 0 and all(c % 256 == 0 for c in pa[1].values()):
            pa = (pa[0] // 256, {s: c // 256 for s, c in pa[1].items()})
            k -= 1
        if pa is not None:
            v = ('byte', L(pa[0], pa[1]), k)
    return v


B64Rules.decoder = _decoder
B64Rules.normb = _normb
