"""C01 Round trip for every length, mode and thread count (necessary structural conditions)."""
from .common import combined
LEVEL = 'other'
RULES = ('R01.a', 'R01.b', 'R01.c', 'R01.d', 'R01.e', 'R01.f', 'R01.g', 'R01.h', 'R02.d', 'R04.e', 'R03.b', 'R01.i', 'R10.s', 'R10.d', 'R03.c', 'R09.a', 'R09.k', 'R09.e', 'R09.d', 'R09.t', 'R04.g', 'R04.f', 'R15.b', 'R14.t', 'R01.j', 'R01.k', 'M1', 'M2', 'M3', 'M4', 'M5', 'R01.u', 'R02.r', 'R03.f')


def run(prog, rec, tier):
    from . import static_rules as _sr
    _sr.unsequenced(prog, rec, 'R01.u', 'R01.u@kernel::evaluation-order', ('kernel', 'main.cpp', 'valget'))
    from . import cli_rules
    combined(prog, rec, tier, RULES, driver=('reader', 'layout', 'singleton', 'sequence'), pipe=True, monitor=True, spawn=True, modes=('steps', 'isolation'), aes=('tables', 'key_schedule', ('block', 'enc'), ('block', 'dec'), 'key_load'),
             explanation='PKCS#7 pad write (value, length, offset, block index) for every residue; end-of-body table over the '
             'remaining-length partition for encrypt and decrypt; loaded buffer non-empty; export size within the buffer on every '
             'path (valid-padding guard); decrypt body offset equals the writer\'s header length for every T; chunk i <-> stream i. '
             'Byte equality of the round trip itself is not computed (see C09/C10 for the cipher, C03 for the schedule).')
    C = cli_rules.CliRules(prog, rec)
    C.exit_mapping()
    rec.obls = [o for o in rec.obls if o.rule in RULES]
    rec.instances = {k: v for k, v in rec.instances.items() if any(k.startswith(r) for r in RULES)}
