"""C03 Output independent of scheduling; each block transformed exactly once."""
from .common import pipeline_for, combined

LEVEL = 'other'
RULES = ('S-OWN', 'M1', 'R03.a', 'R03.b', 'R03.d', 'R03.e', 'R04.d', 'R01.b', 'R02.d', 'R03.c', 'R14.t', 'R01.c', 'R10.s', 'R10.d', 'R01.k', 'R04.n', 'R02.r', 'R03.f')


def run(prog, rec, tier):
    from . import static_rules as _sr
    _sr.assert_conditions(prog, rec, 'R04.n', 'R04.n@kernel::assert-conditions-have-no-effects', ('kernel', 'main.cpp', 'valget'))
    combined(prog, rec, tier, RULES, driver=('layout', 'reader', 'sequence'), pipe=True, monitor=True, spawn=True, modes=('isolation', 'steps'),
                 explanation='Ownership typestate of every chunk buffer as the abstract value of the token field, per role, '
                 'closed under an inferred rely/guarantee pair; exactly-once flow of entries to the cipher step; '
                 'cursor summary; hand-back only when consumed; thread i <-> buffer i <-> stream i for T=1..16.')
