"""C13 An interrupted encryption never leaves a file that verifies."""
from .common import combined
LEVEL = 'other'
RULES = ('R13.a', 'R13.b', 'R13.c', 'R13.d', 'R13.e', 'R02.b', 'R08.b', 'S-CMP', 'R05.e', 'R02.g')


def run(prog, rec, tier):
    # the state before the first write is an empty output file: whatever the parser opens for writing is created or truncated
    from . import cli_rules
    cli_rules.CliRules(prog, rec).parser()
    combined(prog, rec, tier, RULES, driver=('layout', 'reader'), hmac=('scmp',),
             explanation='From the ordered write list of execute_encrypt for every T: after the body exactly one write reaches the output, '
             'it is the tag at offset 10, it follows the hash of [48,EOF), nothing follows it but close; every earlier write into '
             '[10,48) is all-zero. Hence every proper prefix of the write sequence leaves a zero or partial tag. The tag compare is '
             'complete over every digest byte, so a zero/partial tag is only accepted if it equals the HMAC (cryptographic assumption).')
    rec.assume('an all-zero or partial tag does not equal the HMAC of the partial file')
