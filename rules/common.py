"""Glue shared by the per-property modules: run the shared analyses once, keep the selected rules."""
from . import pipeline, monitor


def pipeline_for(prog, rec, tier, rules, monitor=False, spawn=False, explanation=''):
    rec.extra['explanation'] = explanation
    try:
        return _pipeline_for(prog, rec, tier, rules, monitor, spawn, explanation)
    finally:
        rec.obls = [o for o in rec.obls if o.rule in rules]
        rec.instances = {k: v for k, v in rec.instances.items() if any(k.startswith(r) for r in rules)}


def _pipeline_for(prog, rec, tier, rules, monitor=False, spawn=False, explanation=''):
    from . import monitor as mon
    pa = pipeline.PipelineAnalysis(prog, rec)
    A = pa.A
    if monitor:
        mon.run_monitor(prog, rec, A)
    if spawn:
        mon.run_spawn_join(prog, rec, A)
    pa.analyse()
    # keep only this property's rules (the shared analysis produces all of them)
    rec.obls = [o for o in rec.obls if o.rule in rules]
    rec.instances = {k: v for k, v in rec.instances.items() if any(k.startswith(r) for r in rules)}
    rec.extra['explanation'] = explanation
    rec.extra['pipeline'] = pa.info
    rec.assume('C++ memory model: accesses ordered by the same mutex or by thread creation/join do not race')
    rec.assume('an enumeration object holds one of its enumerators')
    rec.assume('stdio: fread returns min(remaining, n); feof only after a short read; fgetc/ungetc as ISO C')
    return pa


def combined(prog, rec, tier, rules, **kw):
    """Run the selected shared analyses, keep the obligations of `rules` (also when an analysis gives up)."""
    try:
        _combined(prog, rec, tier, rules, **kw)
    finally:
        rec.obls = [o for o in rec.obls if o.rule in rules]
        rec.instances = {k: v for k, v in rec.instances.items() if any(k.startswith(r) for r in rules)}


def _combined(prog, rec, tier, rules, driver=(), hmac=(), pipe=False, monitor=False, spawn=False, explanation='', hash=(), modes=(), aes=(), compress=False):
    from . import monitor as mon
    info = {}
    rec.extra['explanation'] = explanation
    if pipe or monitor or spawn:
        pa = pipeline.PipelineAnalysis(prog, rec)
        if monitor:
            mon.run_monitor(prog, rec, pa.A)
        if spawn:
            mon.run_spawn_join(prog, rec, pa.A)
        if pipe:
            pa.analyse()
            info['pipeline'] = pa.info
    if driver:
        from .driver_rules import DriverRules
        dr = DriverRules(prog, rec, tier)
        for part in driver:
            getattr(dr, part)()
    if hmac:
        from .hmac_rules import HmacRules
        hr = HmacRules(prog, rec)
        for part in hmac:
            getattr(hr, part)()
    if modes:
        from .mode_rules import ModeRules
        mr = ModeRules(prog, rec)
        for part in modes:
            getattr(mr, part)()
    if aes:
        from .aes_rules import AesRules
        ar = AesRules(prog, rec)
        for part in aes:
            if isinstance(part, tuple):
                getattr(ar, part[0])(*part[1:])
            else:
                getattr(ar, part)()
    if hash:
        from .hash_rules import HashRules
        hs = HashRules(prog, rec)
        for part in hash:
            getattr(hs, part)()
    if compress:
        from . import term_rules
        term_rules.hash_compress(prog, rec, tier)
    rec.obls = [o for o in rec.obls if o.rule in rules]
    rec.instances = {k: v for k, v in rec.instances.items() if any(k.startswith(r) for r in rules)}
    rec.extra['explanation'] = explanation
    rec.extra.update(info)
    rec.assume('stdio keeps per-stream order of writes; fread returns min(remaining, n); fseek(SEEK_SET) positions absolutely')
    rec.assume('an enumeration object holds one of its enumerators')
    if pipe or monitor:
        rec.assume('C++ memory model: accesses ordered by the same mutex or by thread creation/join do not race')
