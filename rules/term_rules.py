"""Tier 2 for C07: the three one-block compress functions as word terms over free chaining words and free message bytes,
compared with FIPS 180-4 / RFC 1321 reference terms."""
import os
import sys
from wai import interp, models
from wai.terminterp import TermInterp
from wai.terms import TS
from wai.wterms import WS, compare_words
from wai.facts import AnalysisBroken, walk, loc as nloc
from wai.values import *
from .hash_rules import HashRules, fkey, OBJ, MSG

sys.path.insert(0, os.path.dirname(os.path.dirname(os.path.abspath(__file__))))
from spec import sha as spec   # noqa: E402


class WordAlg:
    def __init__(self, ws):
        self.ws = ws

    def add(self, xs):
        return self.ws.add(xs)

    def xor(self, a, b):
        return self.ws.bitop('^', a, b)

    def and_(self, a, b):
        return self.ws.bitop('&', a, b)

    def or_(self, a, b):
        return self.ws.bitop('|', a, b)

    def not_(self, a):
        return self.ws.bitnot(a)

    def rotl(self, k, a):
        return self.ws.rot(k, a)

    def shr(self, k, a):
        return self.ws.shr(k, a)

    def const(self, c):
        return self.ws.k(c)


def m_memcpy_bytes(I, st, fr, n, this, args, an):
    """memcpy / memset into byte-addressed (union) storage, element by element."""
    dst, src, cnt = args[0], args[1], args[2]
    if dst[0] == 'p' and dst[2] and isinstance(dst[2][-1], tuple) and dst[2][-1][0] == '$B' and cnt[0] == 'c' and cnt[1] <= 256:
        base = dst[2][-1]
        for i in range(cnt[1]):
            if src[0] == 'p' and src[2] and isinstance(src[2][-1], int):
                v = I.load(st, (src[1], src[2][:-1] + (src[2][-1] + i,)))
            elif src[0] == 'c':
                v = C(src[1] & 0xff)
            else:
                v = TOP
            st.mem[(dst[1], dst[2][:-1] + ('$b', base[1] + i))] = v
        return [(st, dst)]
    return None


def m_memset_bytes(I, st, fr, n, this, args, an):
    dst, c, cnt = args[0], args[1], args[2]
    if dst[0] == 'p' and dst[2] and isinstance(dst[2][-1], tuple) and dst[2][-1][0] == '$B' and cnt[0] == 'c' and cnt[1] <= 256 and c[0] == 'c':
        base = dst[2][-1]
        for i in range(cnt[1]):
            st.mem[(dst[1], dst[2][:-1] + ('$b', base[1] + i))] = C(c[1] & 0xff)
        return [(st, dst)]
    return None


def chain(first, second):
    def m(I, st, fr, n, this, args, an):
        r = first(I, st, fr, n, this, args, an)
        return r if r is not None else second(I, st, fr, n, this, args, an)
    return m


def hash_compress(prog, rec, tier):
    H = HashRules(prog, rec)
    out = {}
    for sub in H.subs:
        m = H.methods(sub)
        kind = H.kind(sub)
        f = m['compress']
        hf, nh = H.wordfield(sub)
        ts = TS()
        mdl = dict(models.STD_MODELS)
        mdl['memcpy'] = chain(m_memcpy_bytes, models.m_memcpy)
        mdl['memset'] = chain(m_memset_bytes, models.m_memset)
        I = TermInterp(prog, ts, models=mdl)
        I.word_mode = True
        ws = I.ws
        st = interp.State()
        Hin = [ws.leaf('h%d' % i) for i in range(nh)]
        for i in range(nh):
            st.mem[(OBJ, (hf, i))] = ('tw', Hin[i])
        st.mem[(OBJ, (H.total,))] = C(0)
        st.mem[(OBJ, ('$dyn',))] = ('type', sub['q'])
        for i in range(64):
            st.mem[(MSG, (i,))] = ('tb', ts.v('m%d' % i))
        res = I.run(f, st, this=P(OBJ, ()), args=[P(MSG, (0,))])
        rec.saw(I)
        where = '%s:%s' % (f['file'], f['line'])
        key = 'R07.t@%s::compress-%s' % (fkey(f), kind)
        if len(res) != 1 or I.fail or I.unmodelled:
            rec.ob('R07.t', key, None, where, 'term evaluation incomplete: %s %s (%d paths)' % (I.fail[:2], I.unmodelled[:2], len(res)))
            continue
        s = res[0][0]
        # message words as the standards define them: big-endian for SHA, little-endian for MD5 (leaf = LE byte-name tuple)
        if kind == 'md5':
            W = [ws.leaf(tuple('m%d' % (4 * j + k) for k in range(4))) for j in range(16)]
        else:
            W = [ws.leaf(tuple('m%d' % (4 * j + 3 - k) for k in range(4))) for j in range(16)]
        A = WordAlg(ws)
        want = {'sha1': spec.sha1_compress, 'sha256': spec.sha256_compress, 'md5': spec.md5_compress}[kind](A, Hin, W)
        bad = []
        for i in range(nh):
            got = s.mem.get((OBJ, (hf, i)))
            gid = I.wid(got, True) if got is not None else None
            if gid != want[i]:
                v = compare_words(ws, gid, want[i]) if gid is not None else 'missing'
                bad.append((i, v if isinstance(v, str) else 'differs: code %08x, standard %08x on a sample assignment' % (v[1], v[2])))
        und = [b for b in bad if b[1] == 'undecided']
        ok = not bad
        rec.ob('R07.t', key, (None if bad and len(und) == len(bad) else ok), where,
               '%s: the %d chaining words after one block, as word terms over free chaining words and 64 free message bytes, equal %s: %s' % (
                   sub['q'], nh, {'sha1': 'FIPS 180-4 6.1.2', 'sha256': 'FIPS 180-4 6.2.2', 'md5': 'RFC 1321 3.4'}[kind],
                   'all equal' if ok else 'NO: word %d: %s' % bad[0]))
        # the compress function counts exactly 512 bits
        tot = s.mem.get((OBJ, (H.total,)))
        rec.ob('R07.b', 'R07.b@%s::compress-counts-512-bits' % fkey(f), tot == C(512), where, 'bit counter after one block from 0: %s' % (show(tot) if tot else '?'))
        out[kind] = {'word_term_nodes': len(ws.nodes)}
    rec.extra['tier2'] = out
    rec.count('R07.t compress functions', len(out), 3)
