"""C04 Pipeline terminates under every schedule and input (no deadlock, lost wake-up)."""
from .common import pipeline_for, combined

LEVEL = 'other'
RULES = ('M1', 'M2', 'M3', 'M4', 'M5', 'R01.b', 'R01.c', 'R04.a', 'R04.b', 'R04.c', 'R04.d', 'R04.e', 'S-OWN', 'R03.d', 'R04.f', 'R04.g', 'R15.b', 'R14.t', 'R07.e', 'R07.g', 'R04.n', 'R03.f', 'R02.r')


def run(prog, rec, tier):
    from . import static_rules as _sr
    _sr.assert_conditions(prog, rec, 'R04.n', 'R04.n@kernel::assert-conditions-have-no-effects', ('kernel', 'main.cpp', 'valget'))
    combined(prog, rec, tier, RULES, driver=('singleton', 'sequence', 'layout', 'reader'), hash=('drivers', 'buffer', 'buffer_sim'), pipe=True, monitor=True, spawn=True,
                 explanation='Monitor discipline on the token class (writes under the mutex, waits in re-testing loops with computed '
                 'leave sets, notify_all on the matching condition variable before the mutex is released, leave sets reachable), '
                 'no READY buffer without blocks (end-of-body table over the remaining-length partition), worker exits only on INV, '
                 'every started thread joined for T=1..16, I/O loop exits only with live counter 0, live counter tied to INV, '
                 'no load after the input ended; no loop of either role can spin on a recurring state (a failing read included); the counter '
                 'the I/O loop waits on is 0 and the loop state is re-established when a further operation starts in the same process. '
                 'Liveness under fairness itself is not decided.')
    rec.assume('std::condition_variable: a notify_all issued while the waiter holds or waits on the same mutex is not lost')
