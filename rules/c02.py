"""C02 Encrypted file equals the documented format."""
from .common import combined
LEVEL = 'other'
RULES = ('R02.i', 'R02.a', 'R02.b', 'R02.c', 'R02.d', 'R02.f', 'R01.a', 'R01.c', 'R01.g', 'R01.h', 'R08.b', 'R13.b', 'R18.c', 'R06.b',
         'R10.s', 'R10.c', 'R10.d', 'R10.i', 'R09.a', 'R09.k', 'R09.e', 'R09.d', 'R09.t', 'R07.d', 'R07.e', 'R07.t', 'R06.a', 'R06.c', 'R08.a', 'R02.g', 'R12.g', 'R01.j', 'R02.h', 'R08.f', 'R02.r')


def run(prog, rec, tier):
    from . import cli_rules
    C = cli_rules.CliRules(prog, rec)
    C.parser()
    C.interactive()
    combined(prog, rec, tier, RULES, driver=('layout', 'reader'), pipe=True, spawn=True, modes=('steps', 'counter'), hash=('drivers', 'finaliser', 'factory'), compress=True, hmac=('structure',),
             aes=('tables', 'key_schedule', ('block', 'enc'), ('block', 'dec'), 'key_load'),
             explanation='The ordered list of stream accesses of execute_encrypt, computed per thread count by abstract interpretation '
             'from a runcrypt object built by its own constructor, is compared byte offset by byte offset with the documented layout '
             '(magic, mode bytes, 38 zero bytes, T IV slots of 20 bytes from one array, body from 48+20T, tag at 10); IV chain '
             'iv[0]=H(seed,strlen), iv[i]=H(iv[i-1]); padding and end-of-body table; stream i for thread i; nothing writes the input stream; '
             'the cipher streams are the SP 800-38A modes over FIPS-197 AES-128 by term conformance (C09/C10 rules).')
