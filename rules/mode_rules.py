"""C10: the ten mode stream objects produced by the factory against NIST SP 800-38A, one block step at term level with the
block cipher as an uninterpreted function (E / D, D(E(x)) = x), plus the 128-bit big-endian counter increment over the
exhaustive carry-pattern partition, plus confinement of each step to block[0..16), iv and cipher scratch."""
from wai import interp, models
from wai.terminterp import TermInterp, is_term
from wai.terms import TS, compare_terms
from wai.facts import AnalysisBroken, walk, strip, loc as nloc
from wai.values import *


def fkey(fn):
    return '%s::%s' % (fn['file'], fn['q'])


KEY = ('ext', 'key')
IVSRC = ('ext', 'ivsrc')
BLK = ('ext', 'block')
FAC = ('ext', 'factory')
NAMES = {0: 'ECB', 1: 'CBC', 2: 'CTR', 3: 'CFB', 4: 'OFB'}


class TSX(TS):
    """Term store with the single rewrite D(E(x)) -> x, E(D(x)) -> x on 16-byte vectors."""

    def unint(self, tag, args, i):
        inv = {'E': 'D', 'D': 'E'}[tag]
        ns = [self.nodes[a] for a in args]
        if all(n[0] == 'u' and n[1] == inv and n[3] == k and n[2] == ns[0][2] for k, n in enumerate(ns)):
            return ns[0][2][i]
        return self.mk(('u', tag, tuple(args), i))


def spec_step(ts, mode, enc, p, iv):
    """SP 800-38A 6.1-6.5, one block: returns (output block, next feedback/counter or None when it is the counter)."""
    E = lambda x: [ts.unint('E', x, i) for i in range(16)]
    D = lambda x: [ts.unint('D', x, i) for i in range(16)]
    X = lambda a, b: [ts.xor([x, y]) for x, y in zip(a, b)]
    if mode == 0:
        return (E(p) if enc else D(p)), iv
    if mode == 1:
        if enc:
            c = E(X(p, iv))
            return c, c
        return X(D(p), iv), p
    if mode == 2:
        return X(p, E(iv)), None
    if mode == 3:
        o = E(iv)
        c = X(p, o)
        return c, (c if enc else p)
    if mode == 4:
        o = E(iv)
        return X(p, o), o
    raise ValueError(mode)


class ModeRules:
    def __init__(self, prog, rec):
        self.prog, self.rec = prog, rec
        base = [r for r in prog.records.values() if any(m['n'] == 'runcry' and m.get('pure') for m in r['methods'])]
        if len(base) != 1:
            raise AnalysisBroken('mode base class not found')
        self.base = base[0]
        self.Bq = self.base['q']
        facs = [f for f in prog.functions.values()
                if prog.type(f['ret']).get('k') == 'ptr' and prog.type(prog.type(f['ret'])['to']).get('rec') == self.Bq and f.get('rec')]
        if len(facs) > 1:
            from wai.facts import outermost
            facs = outermost(prog, facs)
        if len(facs) != 1:
            raise AnalysisBroken('stream factory not found')
        self.factory = facs[0]
        self.Fq = self.factory['rec']
        self.ivf = next((f['d'][2:] for f in self.base['fields'] if f['n'] == 'iv'), None)
        if self.ivf is None:
            raise AnalysisBroken('feedback register field of the mode base class not found')
        self.blockfn = {}
        for f in prog.functions.values():
            if f['name'] == 'runaes_128bit' and f.get('rec') and 'body' in f:
                self.blockfn[f['q']] = 'E' if 'enc' in f['rec'].lower() else 'D'

    def make(self, ts, enc, typ, term_iv=True):
        """Build the stream object with the real factory and constructors (key/iv symbolic)."""
        prog = self.prog
        strcopies = []

        class _Str:
            def on_strwrite(self_, I_, st_, node, dst, args, argnodes, bounded):
                # a string function (stops at the first zero byte) applied to the IV or the key
                for a in args[1:]:
                    if a is not None and a[0] == 'p' and a[1] in (IVSRC, KEY):
                        strcopies.append((nloc(node), (node.get('callee') or {}).get('q'), 'IV' if a[1] == IVSRC else 'key'))
        I = TermInterp(prog, ts, listeners=[_Str()], models=dict(models.STD_MODELS))
        I.strcopies = strcopies
        st = interp.State()
        for i in range(16):
            st.mem[(KEY, (i,))] = ('tb', ts.v('k%d' % i))
        for i in range(20):
            st.mem[(IVSRC, (i,))] = ('tb', ts.v('iv%d' % i)) if term_iv else sym('iv%d' % i)
            if not term_iv:
                st.sym['iv%d' % i] = (0, 255)
        frec = prog.records[self.Fq]
        ivfld = next((f for f in frec['fields'] if f['n'] == 'iv'), None)
        iv_is_ptr = ivfld is None or (prog.type(ivfld['t']) or {}).get('k') == 'ptr'
        if iv_is_ptr:
            for f in frec['fields']:
                if f['n'] == 'key':
                    st.mem[(FAC, (f['d'][2:],))] = P(KEY, (0,))
                elif f['n'] == 'iv':
                    st.mem[(FAC, (f['d'][2:],))] = P(IVSRC, (0,))
            res = I.run(self.factory, st, this=P(FAC, ()), args=[C(1 if enc else 0), C(typ)])
            return I, res
        # the factory keeps its own copy of the IV: build it the way the product code does - the constructor that takes the key,
        # then the member function that takes the IV
        T = prog.type
        ctor = [g for g in prog.functions.values() if g.get('ctor') and g.get('rec') == self.Fq and len(g['params']) == 1 and (T(g['params'][0]['t']) or {}).get('k') == 'ptr']
        setiv = [prog.functions[m['id']] for m in frec['methods'] if m['id'] in prog.functions and not prog.functions[m['id']].get('ctor')
                 and len(prog.functions[m['id']]['params']) == 1 and (T(prog.functions[m['id']]['params'][0]['t']) or {}).get('k') == 'ptr'
                 and (T(prog.functions[m['id']]['ret']) or {}).get('k') == 'void']
        if len(ctor) != 1 or len(setiv) != 1:
            return I, []
        cur = [s_ for s_, _ in I.run(ctor[0], st, this=P(FAC, ()), args=[P(KEY, (0,))])]
        nxt = []
        for s_ in cur:
            nxt += [s2 for s2, _ in I.run(setiv[0], s_, this=P(FAC, ()), args=[P(IVSRC, (0,))])]
        res = []
        for s_ in nxt:
            res += I.run(self.factory, s_, this=P(FAC, ()), args=[C(1 if enc else 0), C(typ)])
        return I, res

    def history(self):
        """R10.h: what the factory builds for (direction, type) does not depend on what it was asked for before in the same
        process: after a product of another type, the class of the product for `type` is the class a first call gives."""
        prog, rec = self.prog, self.rec
        where = '%s:%s' % (self.factory['file'], self.factory['line'])

        def cls_of(st, p):
            dyn = st.mem.get((p[1], p[2] + ('$dyn',))) if p[0] == 'p' else None
            return dyn[1] if dyn else None
        n = 0
        for enc in (True, False):
            fresh = {}
            for typ in range(5):
                I, res = self.make(TSX(), enc, typ)
                fresh[typ] = cls_of(res[0][0], res[0][1]) if len(res) == 1 else None
            for typ in range(5):
                other = (typ + 2) % 5
                ts = TSX()
                I, res = self.make(ts, enc, other)
                if len(res) != 1 or fresh[typ] is None:
                    rec.ob('R10.h', 'R10.h@%s::product-independent-of-history' % self.Fq, None, where, 'factory(%s, %d) did not give one product' % ('enc' if enc else 'dec', other))
                    continue
                st1 = res[0][0]
                res2 = I.run(self.factory, st1, this=P(FAC, ()), args=[C(1 if enc else 0), C(typ)])
                got = cls_of(res2[0][0], res2[0][1]) if len(res2) == 1 else None
                n += 1
                rec.ob('R10.h', 'R10.h@%s::product-independent-of-history' % self.Fq, got == fresh[typ], where,
                       'factory(%s, %d) after a product of type %d builds %s; as a first call it builds %s' % ('enc' if enc else 'dec', typ, other, got, fresh[typ]))
        rec.count('R10.h factory call pairs', n, 10)

    def step_model(self, ts, log):
        def mk(tag):
            def m(I, st, fr, n, this, args, an):
                p = args[0]
                if p[0] != 'p' or not p[2] or not isinstance(p[2][-1], int):
                    log.append(('bad-arg', show(p)))
                    return [(st, ('void',))]
                ids = []
                for i in range(16):
                    v = I.load(st, (p[1], p[2][:-1] + (p[2][-1] + i,)))
                    t = I.tid(v) if v is not None else None
                    if t is None:
                        log.append(('non-term-input', i, show(v)))
                        t = ts.k(0)
                    ids.append(t)
                for i in range(16):
                    st.mem[(p[1], p[2][:-1] + (p[2][-1] + i,))] = ('tb', ts.unint(tag, ids, i))
                log.append((tag, show(this)))
                st.comps['cipher_calls'] = st.comps.get('cipher_calls', ()) + (tag,)
                return [(st, ('void',))]
            return m
        out = {}
        for q, tag in self.blockfn.items():
            out[q] = mk(tag)
        return out

    def steps(self):
        prog, rec = self.prog, self.rec
        n = 0
        for enc in (True, False):
            for typ in range(5):
                ts = TSX()
                I, res = self.make(ts, enc, typ)
                key = 'R10.s@%s::%s-%s' % (self.Fq, NAMES[typ], 'enc' if enc else 'dec')
                where = '%s:%s' % (self.factory['file'], self.factory['line'])
                if len(res) != 1 or res[0][1][0] != 'p' or I.fail:
                    rec.ob('R10.f', 'R10.f@%s::factory-%s-%d' % (self.Fq, 'enc' if enc else 'dec', typ), False if len(res) == 1 and res[0][1][0] == 'null' else None, where,
                           'factory(%s, %d) returns %s %s' % ('encrypt' if enc else 'decrypt', typ, show(res[0][1]) if res else 'nothing', I.fail[:1]))
                    continue
                st, objp = res[0]
                obj = (objp[1], objp[2])
                dyn = st.mem.get((obj[0], obj[1] + ('$dyn',)))
                cls = dyn[1] if dyn else None
                m = prog.resolve_virtual(next(x['id'] for x in self.base['methods'] if x['n'] == 'runcry'), cls) if cls else None
                f = prog.functions.get(m)
                if f is None:
                    rec.ob('R10.f', 'R10.f@%s::factory-%s-%d' % (self.Fq, 'enc' if enc else 'dec', typ), None, where, 'dynamic class of the stream object unknown')
                    continue
                # constructed feedback register = first 16 bytes of the IV given to the factory
                cells0 = [st.mem.get((obj[0], obj[1] + (self.ivf, i))) for i in range(16)]
                ivok = all(c == ('tb', ts.v('iv%d' % i)) for i, c in enumerate(cells0))
                if not ivok and any(c is None or c[0] not in ('tb', 'c') for c in cells0):
                    ivok = None         # the register is not where / what the analysis can read: no verdict
                sc_ = getattr(I, 'strcopies', [])
                if sc_:
                    # binary data copied with a C-string function: everything behind the first zero byte is lost (zero-filled)
                    ivok = False
                rec.ob('R10.i', 'R10.i@%s::initial-register' % cls, ivok, sc_[0][0] if sc_ else '%s:%s' % (f['file'], f['line']),
                       '%s object starts from the first 16 bytes of the IV handed to the factory%s' % (
                           cls, '' if not sc_ else ': NO, the %s is copied with %s, which stops at the first zero byte' % (sc_[0][2], sc_[0][1])))
                # one step on a symbolic block
                log = []
                I2 = TermInterp(prog, ts, models=dict(models.STD_MODELS))
                I2.models.update(self.step_model(ts, log))
                st2 = st.copy()
                pb = [ts.v('p%d' % i) for i in range(16)]
                for i in range(16):
                    st2.mem[(BLK, (i,))] = ('tb', pb[i])
                # every byte member other than the register starts from fresh "junk" leaves: if an output depends on one of
                # them, the object carries state from one block to the next outside iv
                junk = set()
                for rq in [cls] + prog.all_bases(cls):
                    rr = prog.records.get(rq)
                    for fld in (rr['fields'] if rr else []):
                        ft = prog.type(fld['t'])
                        fk = fld['d'][2:]
                        if fk == self.ivf or fld['n'] in ('initiv',):
                            continue
                        if ft.get('k') == 'array' and prog.type(ft['el']).get('bits') == 8 and ft.get('n', 0) <= 64:
                            for i in range(ft['n']):
                                nm = 'junk_%s_%d' % (fld['n'], i)
                                junk.add(nm)
                                st2.mem[(obj[0], obj[1] + (fk, i))] = ('tb', ts.v(nm))
                before = {k: v for k, v in st2.mem.items() if k[0] == obj[0]}
                r2 = I2.run(f, st2, this=P(*obj), args=[P(BLK, (0,))])
                rec.saw(I2)
                n += 1
                ivb = [ts.v('iv%d' % i) for i in range(16)]
                want_blk, want_iv = spec_step(ts, typ, enc, pb, ivb)
                if typ == 2:
                    # the counter path forks on the carry test; the block result must be the same on every path
                    pass
                if not r2 or I2.fail or I2.unmodelled or any(e[0] in ('bad-arg', 'non-term-input') for e in log):
                    rec.ob('R10.s', key, None, '%s:%s' % (f['file'], f['line']), 'term evaluation incomplete: %s %s %s' % (I2.fail[:2], I2.unmodelled[:2], [e for e in log if e[0] not in ('E', 'D')][:2]))
                    continue
                ok = True
                det = ''
                lost = False        # a result that is not a term at all: the analysis lost the value, which is not a verdict on the code
                for s3, _ in r2:
                    for i in range(16):
                        got = s3.mem.get((BLK, (i,)))
                        gid = I2.tid(got) if got is not None else None
                        if gid != want_blk[i]:
                            ok = False
                            lost = lost or gid is None
                            det = 'output byte %d is %s, SP 800-38A says %s' % (i, ts.show(gid, 3) if gid is not None else show(got) if got else '?', ts.show(want_blk[i], 3))
                            break
                    if want_iv is not None and ok:
                        for i in range(16):
                            got = s3.mem.get((obj[0], obj[1] + (self.ivf, i)))
                            gid = I2.tid(got) if got is not None else None
                            if gid != want_iv[i]:
                                ok = False
                                lost = lost or gid is None
                                det = 'register byte %d after the step is %s, SP 800-38A says %s' % (i, ts.show(gid, 3) if gid is not None else '?', ts.show(want_iv[i], 3))
                                break
                    # confinement: nothing of the object but the register and the cipher scratch changes; no pointer to the block is kept
                    for k2, v2 in s3.mem.items():
                        if k2[0] == obj[0] and k2[1][:len(obj[1])] == obj[1]:
                            rest = k2[1][len(obj[1]):]
                            if rest and rest[0] == self.ivf:
                                continue
                            if v2 != before.get(k2):
                                if v2[0] == 'p' and v2[1] == BLK:
                                    ok = False
                                    det = 'member %s keeps a pointer into the caller\'s block after the step (hidden state outside iv)' % (rest,)
                    # outputs must not depend on what the other members held before the step
                    if ok:
                        used = set()
                        for i in range(16):
                            for loc_ in ((BLK, (i,)), (obj[0], obj[1] + (self.ivf, i))):
                                gv = s3.mem.get(loc_)
                                if gv is not None and gv[0] == 'tb':
                                    used |= ts.leaves(gv[1])
                        if used & junk:
                            ok = False
                            det = 'the step\'s result depends on member bytes %s left by the previous step (state other than iv)' % sorted(used & junk)[:3]
                    if not ok:
                        break
                rec.ob('R10.s', key, (None if (not ok and lost) else ok), '%s:%s' % (f['file'], f['line']),
                       'factory(%s,%d) -> %s: one step (block\', iv\') as terms over free block / iv bytes with the block cipher uninterpreted equals SP 800-38A %s %s: %s' % (
                           'enc' if enc else 'dec', typ, cls, NAMES[typ], 'encryption' if enc else 'decryption', 'yes' if ok else 'NO: ' + det))
                # the block cipher direction and instance used
                # per path of the step (a step may fork, e.g. on the carries of a counter)
                wantdir = 'D' if (not enc and typ in (0, 1)) else 'E'
                per_path = sorted({tuple(s3.comps.get('cipher_calls', ())) for s3, _ in r2}) if r2 else [()]
                tags = next((list(t_) for t_ in per_path if list(t_) != [wantdir]), [wantdir])
                rec.ob('R10.d', 'R10.d@%s::cipher-direction' % cls, all(list(t_) == [wantdir] for t_ in per_path), '%s:%s' % (f['file'], f['line']),
                       '%s calls the block cipher %s (expected exactly one %s per block, on each of %d path(s) of the step)' % (cls, tags, wantdir, len(r2)))
        rec.count('R10.s mode steps', n, 10)

    def inverse(self):
        """decryptor(encryptor(p)) == p at term level, for the five pairs, with D(E(x)) = x."""
        rec = self.rec
        for typ in range(5):
            ts = TSX()
            pb = [ts.v('p%d' % i) for i in range(16)]
            ivb = [ts.v('iv%d' % i) for i in range(16)]
            c, ive = spec_step(ts, typ, True, pb, ivb)
            p2, ivd = spec_step(ts, typ, False, c, ivb)
            ok = p2 == pb and (ive == ivd or typ == 2)
            rec.ob('R10.v', 'R10.v@SP800-38A::%s-inverse' % NAMES[typ], ok, 'spec/', 'reference %s: decrypt step of encrypt step is the identity and both sides carry the same register' % NAMES[typ])

    def counter(self):
        """ctr increment: exhaustive partition of the 2^128 counter values by the position of the lowest non-0xFF byte."""
        prog, rec = self.prog, self.rec
        ts = TS()
        I, res = self.make(ts, True, 2, term_iv=False)
        if len(res) != 1 or res[0][1][0] != 'p':
            rec.ob('R10.c', 'R10.c@%s::counter' % self.Fq, None, self.factory['file'], 'CTR object not constructed')
            return
        st, objp = res[0]
        obj = (objp[1], objp[2])
        dyn = st.mem.get((obj[0], obj[1] + ('$dyn',)))
        cls = dyn[1]
        f = prog.functions.get(prog.resolve_virtual(next(x['id'] for x in self.base['methods'] if x['n'] == 'runcry'), cls))
        where = '%s:%s' % (f['file'], f['line'])
        stores = set()

        class _St:
            def on_store(self_, I_, st_, loc, val, node):
                if loc is not None and loc[0] == obj[0] and loc[1][:len(obj[1])] == obj[1] and len(loc[1]) == len(obj[1]) + 1 \
                        and isinstance(loc[1][-1], str) and loc[1][-1] != self.ivf and val[0] == 'c':
                    stores.add((loc, val))

        def partition(preset):
            bad, und = [], []
            for k in range(16, -1, -1):     # k = index of the lowest-order byte that is not 0xFF; 16 -> hmm use -1 for all 0xFF
                kk = k - 1                   # kk in 15..-1
                s = st.copy()
                for l_, v_ in preset:
                    s.mem[l_] = v_
                for j in range(16):
                    l = (obj[0], obj[1] + (self.ivf, j))
                    if j > kk:
                        s.mem[l] = C(0xff)
                    elif j == kk:
                        s.sym['c%d' % j] = (0, 254)
                        s.mem[l] = sym('c%d' % j)
                    else:
                        s.sym['c%d' % j] = (0, 255)
                        s.mem[l] = sym('c%d' % j)
                for i in range(16):
                    s.mem[(BLK, (i,))] = TOP

                def m_blk(I3, st3, fr, n, this, args, an):
                    p = args[0]
                    if p[0] == 'p' and p[2] and isinstance(p[2][-1], int):
                        for i in range(16):
                            st3.mem[(p[1], p[2][:-1] + (p[2][-1] + i,))] = TOP
                    return [(st3, ('void',))]
                I3 = interp.Interp(prog, listeners=[_St()], models=dict(models.STD_MODELS))
                for q in self.blockfn:
                    I3.models[q] = m_blk
                I3.concrete_loops = True
                r3 = I3.run(f, s, this=P(*obj), args=[P(BLK, (0,))])
                rec.saw(I3)
                if I3.unmodelled:
                    und.append((kk, str(I3.unmodelled[0])))
                    continue
                for s4, _ in r3:
                    for j in range(16):
                        got = s4.mem.get((obj[0], obj[1] + (self.ivf, j)))
                        if j > kk:
                            want = C(0)
                        elif j == kk:
                            want = L(1, {'c%d' % j: 1})
                        else:
                            want = sym('c%d' % j)
                        if got != want:
                            if got is None or got == TOP or got[0] in ('r', 's', 'ptop'):
                                und.append((kk, 'byte %d became %s' % (j, show(got) if got else '?')))
                            else:
                                bad.append((kk, 'byte %d became %s, expected %s' % (j, show(got), show(want))))
                            break
            return bad, und
        bad, und = partition(())
        # a scalar member that the step itself sets (a flag, a cache) is part of the object state the next step starts from: the
        # increment must be the same from every value the step has been seen to store there
        extra = []
        for l_, v_ in sorted(stores, key=str):
            if st.mem.get(l_) == v_:
                continue
            b2, u2 = partition(((l_, v_),))
            extra.append((l_[1][-1], show(v_)))
            bad += [(kk, '%s (with member %s = %s, a value the step itself stores)' % (d_, l_[1][-1], show(v_))) for kk, d_ in b2]
            und += u2
        ok = not bad and not und
        rec.ob('R10.c', 'R10.c@%s::counter-increment' % fkey(f), (False if bad else (None if und else True)), where,
               '128-bit big-endian counter + 1 for all 17 carry patterns (bytes 15..k+1 = 0xFF, byte k < 0xFF, rest free; and all 0xFF): %s' % (
                   'yes' if ok else ('NO: pattern k=%d: %s' % bad[0] if bad else 'undecided: pattern k=%d: %s' % und[0])))


def stream_isolation(self):
    """R03.c: two stream objects made by the same factory share no mutable storage: the sets of locations a step writes
    (apart from the caller's block) are disjoint, so concurrent workers cannot interfere through their cipher objects."""
    prog, rec = self.prog, self.rec
    n = 0
    for enc in (True, False):
        for typ in range(5):
            ts = TSX()
            I = TermInterp(prog, ts, models=dict(models.STD_MODELS))
            st = interp.State()
            for i in range(16):
                st.mem[(KEY, (i,))] = ('tb', ts.v('k%d' % i))
            for i in range(40):
                st.mem[(IVSRC, (i,))] = ('tb', ts.v('iv%d' % i))
            frec = prog.records[self.Fq]
            for f in frec['fields']:
                if f['n'] == 'key':
                    st.mem[(FAC, (f['d'][2:],))] = P(KEY, (0,))
                elif f['n'] == 'iv':
                    st.mem[(FAC, (f['d'][2:],))] = P(IVSRC, (0,))
            # the factory object itself may own members (run its constructor when it has one with a body)
            objs = []
            cur = st
            okmk = True
            for k in range(2):
                # distinct call sites are needed for distinct allocation identities: wrap by context
                fr = I.start_frame(self.factory)
                I._decl_is_ref = getattr(I, '_decl_is_ref', {})
                I.index_ref_decls()
                res = I.run(self.factory, cur, this=P(FAC, ()), args=[C(1 if enc else 0), C(typ)])
                if len(res) != 1 or res[0][1][0] != 'p':
                    okmk = False
                    break
                cur, p = res[0]
                # give the second object its own identity: relocate the first to a fresh name
                if k == 0:
                    old = p[1]
                    new = ('stream-A',)
                    for key in [kk for kk in cur.mem if kk[0] == old]:
                        cur.mem[(new, key[1])] = cur.mem.pop(key)
                    for key, v in list(cur.mem.items()):
                        if v[0] == 'p' and v[1] == old:
                            cur.mem[key] = P(new, v[2])
                    p = P(new, p[2])
                objs.append(p)
            if not okmk:
                continue
            wsets = []
            for k, p in enumerate(objs):
                obj = (p[1], p[2])
                dyn = cur.mem.get((obj[0], obj[1] + ('$dyn',)))
                f = prog.functions.get(prog.resolve_virtual(next(x['id'] for x in self.base['methods'] if x['n'] == 'runcry'), dyn[1])) if dyn else None
                if f is None:
                    okmk = False
                    break
                w = set()

                class Lst:
                    def on_store(self, I3, st3, loc, val, node):
                        if loc is not None and not (isinstance(loc[0], tuple) and loc[0][0] in ('L', 'tmp')):
                            w.add(loc[0])

                    def on_memcpy(self, I3, st3, node, dst, src, size):
                        if dst is not None and dst[0] == 'p' and not (isinstance(dst[1], tuple) and dst[1][0] in ('L', 'tmp')):
                            w.add(dst[1])

                    def on_memset(self, I3, st3, node, dst, val, size):
                        self.on_memcpy(I3, st3, node, dst, None, size)
                I2 = TermInterp(prog, ts, listeners=[Lst()], models=dict(models.STD_MODELS))
                log = []
                I2.models.update(self.step_model(ts, log))
                s2 = cur.copy()
                B = ('ext', 'block%d' % k)
                for i in range(16):
                    s2.mem[(B, (i,))] = ('tb', ts.v('p%d_%d' % (k, i)))
                I2.run(f, s2, this=P(*obj), args=[P(B, (0,))])
                # the uninterpreted cipher step writes its own scratch: count the object it belongs to
                for e in log:
                    if e[0] in ('E', 'D'):
                        w.add(('cipher-scratch', e[1]))
                w.discard(B)
                wsets.append(w)
            if not okmk:
                continue
            n += 1
            shared = wsets[0] & wsets[1]
            rec.ob('R03.c', 'R03.c@%s::streams-share-no-mutable-state' % self.Fq, not shared, '%s:%s' % (self.factory['file'], self.factory['line']),
                   'factory(%s,%d): two streams from one factory write %s' % ('enc' if enc else 'dec', typ,
                                                                          'disjoint storage' if not shared else 'the SAME storage %s (unsynchronised between worker threads)' % sorted(map(str, shared))[:2]))
    rec.count('R03.c stream pairs', n, 10)


ModeRules.isolation = stream_isolation
