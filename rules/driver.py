"""Driver-level analyses: the three operations execute_encrypt / execute_decrypt / execute_verify are interpreted
from a runcrypt object built by the repository's own constructor, for every thread count T = 1..THREAD_MAX.
The pipeline call and the hash drivers are summarised (they have their own rule sets); everything else is inlined.
Each abstract path carries its ordered log of stream accesses, which the S-LAYOUT / S-GATE / S-FILEFX rules read.
"""
from wai import interp, models
from wai.facts import AnalysisBroken, walk, strip, loc as nloc
from wai.values import *

FIN = ('file', 'fin')
OUT = ('file', 'out')
KEY = ('ext', 'key')
RBUF = ('ext', 'seed')
RC = ('ext', 'runcrypt')
BODY = 'body'           # symbolic length of what the pipeline writes


def log(st, *ev):
    st.comps['log'] = st.comps.get('log', ()) + (ev,)


def fkey(fn):
    return '%s::%s' % (fn['file'], fn['q'])


class DriverListener:
    """Builds the per-path access log; classifies the data written."""

    def __init__(self, D):
        self.D = D

    def cur(self, I):
        return I.frames[-1].fn if I.frames else None

    def src_kind(self, I, st, src, size):
        """What is being written: ('const', bytes) | ('zero', n) | ('loc', obj, path) | ('unknown',)"""
        if src[0] != 'p':
            return ('unknown',)
        obj, path = src[1], src[2]
        n = size[1] if size[0] == 'c' else None
        # scalar object written as bytes
        v = st.mem.get((obj, path))
        if v is not None and v[0] == 'c' and n is not None and not (path and isinstance(path[-1], int)):
            return ('const', v[1], n)
        if path and isinstance(path[-1], int) and n is not None and n <= 256:
            vals = [I.load(st, (obj, path[:-1] + (path[-1] + i,))) for i in range(n)]
            if all(x == C(0) for x in vals):
                return ('zero', n)
            if all(x[0] == 'c' for x in vals):
                return ('const', tuple(x[1] for x in vals), n)
            if any(x[0] == 'c' for x in vals) and n <= 64:
                # a block put together from constants and values: one descriptor per byte
                return ('bytes', tuple(('byte', x[1]) if x[0] == 'c' else ('val', show(x)) for x in vals), n)
        return ('loc', obj, path)

    def _caller_obj(self, I, st, obj, what, node):
        # the caller's key buffer and settings object belong to the caller: an operation that writes them changes what the next
        # operation (which is handed the same objects) starts from
        if obj in (KEY, ('ext', 'settings')) and getattr(self.D, 'current_op', None) not in (None, 'ctor'):
            fn = self.cur(I)
            log(st, 'CALLERWRITE', str(obj[1]), what, nloc(node), fn['q'] if fn else '?')

    def on_store(self, I, st, loc, val, node):
        if loc is not None:
            self._caller_obj(I, st, loc[0], 'store', node)

    def on_memset(self, I, st, node, dst, val, size):
        if dst is not None and dst[0] == 'p':
            self._caller_obj(I, st, dst[1], 'memset', node)

    def on_memcpy(self, I, st, node, dst, src, size):
        if dst is not None and dst[0] == 'p':
            self._caller_obj(I, st, dst[1], 'memcpy', node)

    def on_fwrite(self, I, st, node, root, pos, size, src, fval):
        fn = self.cur(I)
        log(st, 'W', root, pos, size, self.src_kind(I, st, src, size), nloc(node), fn['q'] if fn else '?')

    def on_fread(self, I, st, node, root, pos, size, dst, got):
        fn = self.cur(I)
        # the reader named in keys is the innermost member function of the class that owns the destination field
        # (a free helper that wraps fread does not change who reads the field)
        if dst is not None and dst[0] == 'p' and dst[2] and isinstance(dst[2][-1], str) and '::' in dst[2][-1]:
            owner = dst[2][-1].rsplit('::', 1)[0]
            for fr_ in reversed(I.frames):
                if fr_.fn.get('rec') == owner:
                    fn = fr_.fn
                    break
        d = ('loc', dst[1], dst[2]) if dst is not None and dst[0] == 'p' else ('unknown',)
        log(st, 'R', root, pos, size, d, nloc(node), fn['q'] if fn else '?')
        # remember, per destination location, which file range it was read from (provenance for R05.a / R11)
        if dst is not None and dst[0] == 'p' and size[0] == 'c' and size[1] <= 64:
            st.comps[('from', dst[1], dst[2])] = (root, pos, size)

    def on_fseek(self, I, st, node, root, off, whence):
        fn = self.cur(I)
        log(st, 'SEEK', root, off, whence, nloc(node), fn['q'] if fn else '?')

    def on_ftruncate(self, I, st, node, root, length):
        fn = self.cur(I)
        log(st, 'TRUNC', root, length, nloc(node), fn['q'] if fn else '?')

    def on_fclose(self, I, st, node, root, fval):
        log(st, 'CLOSE', root, nloc(node))

    def on_fprintf(self, I, st, node, root, args):
        if root in ('fin', 'out'):
            log(st, 'W', root, TOP, TOP, ('unknown',), nloc(node), 'fprintf')

    def on_nullderef(self, I, st, node, val):
        fn = self.cur(I)
        log(st, 'NULLDEREF', nloc(node), fn['q'] if fn else '?', show(val))
        # the path may end here (a call through a null pointer has nothing to run on): remembered per operation as well
        self.D.nullderefs.append((getattr(self.D, 'current_op', None), nloc(node), fn['q'] if fn else '?', show(val), tuple(str(x) for x in st.trace[-6:])))

    def on_new(self, I, st, node, obj, count, at):
        if count is not None:
            st.comps[('alloc', obj)] = count

    def on_delete(self, I, st, node, val, isarr):
        pass


class Driver:
    def __init__(self, prog, rec):
        self.prog, self.rec = prog, rec
        self.rc = prog.records.get('runcrypt')
        cands = [r for r in prog.records.values()
                 if sum(1 for m in r['methods'] if m['n'].startswith('execute_')) >= 3]
        if len(cands) != 1:
            raise AnalysisBroken('expected one class with three execute_* operations, found %d' % len(cands))
        self.rc = cands[0]
        self.RCq = self.rc['q']
        self.ops = {}
        for m in self.rc['methods']:
            if m['n'].startswith('execute_') and m['id'] in prog.functions:
                self.ops[m['n'][len('execute_'):]] = prog.functions[m['id']]
        for need in ('encrypt', 'decrypt', 'verify'):
            if need not in self.ops:
                raise AnalysisBroken('operation execute_%s not found' % need)
        self.ctor = [f for f in prog.functions.values() if f.get('ctor') and f.get('rec') == self.RCq]
        if len(self.ctor) != 1:
            raise AnalysisBroken('expected one %s constructor' % self.RCq)
        self.ctor = self.ctor[0]
        # the pipeline entry: the method the spawner class exposes (resolved through pipeline anchors by the caller)
        self.tmax = None
        for g in prog.globals.values():
            if g.get('const') and isinstance(g.get('value'), int) and g['q'].endswith('THREAD_MAX'):
                self.tmax = g['value']
        if not self.tmax:
            raise AnalysisBroken('THREAD_MAX not found')
        self.results = {}       # (op, T) -> list of (state, retval)
        self.nullderefs = []
        self.interps = []

    # ---- models used only at driver level
    def make_models(self):
        D = self
        mdl = dict(models.STD_MODELS)

        def m_pipeline(I, st, fr, n, this, args, an):
            # summary of run_multicry: reads fin sequentially from its position to EOF, writes out sequentially
            modes = args[0] if args else TOP
            log(st, 'PIPE', models.fpos(st, 'fin'), models.fpos(st, 'out'), nloc(n), show(modes))
            st.comps['pipe_runs'] = st.comps.get('pipe_runs', 0) + 1
            po = models.fpos(st, 'out')
            models.set_fpos(st, 'fin', TOP)
            st.sym[BODY] = (0, 1 << 62)
            models.set_fpos(st, 'out', binop('+', po, sym(BODY), st.sym) if po != TOP else TOP)
            st.comps['pipe_out_from'] = po
            # the I/O loop's own state (fields of the group object it writes): value at entry, unknown afterwards
            A_ = getattr(D, 'A', None)
            if A_ is not None:
                inst = st.mem.get(('G:%s::instance' % A_.Gq, ()))
                snap = {}
                if inst is not None and inst[0] == 'p':
                    for fld in D.io_state_fields():
                        k = (inst[1], inst[2] + (fld,))
                        snap[fld] = show(I.load(st, k))
                        st.mem[k] = TOP
                st.comps['pipe_entry'] = st.comps.get('pipe_entry', ()) + (tuple(sorted(snap.items())),)
            if getattr(D, 'A', None) is not None and D.A.live:
                # R04.c (proved on the pipeline side): the loop exits only with the live counter at 0
                st.mem[(D.A.live, ())] = C(0)
            return [(st, ('void',))]

        def m_filehash(I, st, fr, n, this, args, an):
            buf, outp = args[0], args[1]
            info = st.comps.get(('hbuf', buf[1] if buf[0] == 'p' else None))
            log(st, 'HASHFILE', info, show(outp), nloc(n))
            if outp[0] == 'p':
                models.write_region(I, st, outp, TOP, 'digest', n)
            if info:
                models.set_fpos(st, info[0], TOP)
            return [(st, ('void',))]

        def m_stringhash(I, st, fr, n, this, args, an):
            src, ln, outp = args[0], args[1], args[2]
            log(st, 'HASHSTR', show(src), show(ln), show(outp), nloc(n), I.frames[-1].fn['q'] if I.frames else '?')
            I.emit('hashstr', st, node=n, src=src, length=ln, out=outp, this=this)
            if outp[0] == 'p':
                reg = models.region_of(outp)
                if reg is not None and isinstance(reg[2], int):
                    for i in range(reg[2], reg[2] + 32):
                        k = (reg[0], reg[1] + (i,))
                        if k in st.mem:
                            st.mem[k] = TOP
                    st.mem[(reg[0], reg[1] + ('$digest', reg[2]))] = ('opaque', 'digest', show(src), show(ln))
            return [(st, ('void',))]

        def m_fb64_ctor(I, st, fr, n, this, args, an):
            # filebuffer64(fp, printload, block): consumes fp from its position to EOF, prefix block first
            fp = args[0]
            root = models.fileroot(fp)
            blk = args[2] if len(args) > 2 else NULL
            st.comps[('hbuf', this[1])] = (root, models.fpos(st, root), show(blk))
            log(st, 'HBUF', root, models.fpos(st, root), show(blk), nloc(n))
            I.emit('hbuf', st, node=n, root=root, pos=models.fpos(st, root), block=blk, this=this)
            return [(st, ('void',))]

        mdl['Hashmaster::getFileHash'] = m_filehash
        mdl['Hashmaster::getStringHash'] = m_stringhash
        mdl['filebuffer64::filebuffer64'] = m_fb64_ctor
        self.pipe_model = m_pipeline
        return mdl

    def io_state_fields(self):
        """Non-pointer fields of the group class written by the I/O entry or what it calls (its loop state), except those the
        entry itself assigns before its first loop or call."""
        if hasattr(self, '_iosf'):
            return self._iosf
        prog, A = self.prog, self.A
        seen, todo = set(), [A.io['id']]
        while todo:
            fid = todo.pop()
            if fid in seen or fid not in prog.functions:
                continue
            seen.add(fid)
            for n in walk(prog.functions[fid]['body']):
                if n['k'] in ('CXXMemberCallExpr', 'CallExpr') and n.get('callee', {}).get('rec') == A.Gq and n['callee'].get('m'):
                    todo.append(n['callee']['m'])
        gf = {f['d'][2:]: f for f in A.G['fields'] if prog.type(f['t']).get('k') in ('int', 'bool', 'enum')}
        written = set()
        for fid in seen:
            for n in walk(prog.functions[fid]['body']):
                tgt = None
                if n['k'] in ('BinaryOperator', 'CompoundAssignOperator') and (n.get('op') == '=' or n['k'] == 'CompoundAssignOperator'):
                    tgt = strip(n['lhs'])
                elif n['k'] == 'UnaryOperator' and n.get('op') in ('++', '--'):
                    tgt = strip(n['e'])
                if tgt is not None and tgt.get('k') == 'MemberExpr' and tgt.get('d', '')[2:] in gf:
                    written.add(tgt['d'][2:])
        reset = set()
        body = prog.functions[A.io['id']]['body']
        for stt in (body.get('c') or body.get('body') or []):
            x = strip(stt) if isinstance(stt, dict) else None
            if x and x['k'] == 'BinaryOperator' and x.get('op') == '=' and strip(x['lhs']).get('k') == 'MemberExpr':
                reset.add(strip(x['lhs'])['d'][2:])
            else:
                break
        self._iosf = sorted(written - reset)
        return self._iosf

    def build(self, T, fin_null=False, no_echo=None, seed_given=True, base=None):
        """Run the real constructor on symbolic arguments; returns (interp, states)."""
        prog = self.prog
        mdl = self.make_models()
        L = DriverListener(self)
        I = interp.Interp(prog, listeners=[L] + list(getattr(self, 'extra_listeners', [])), models=mdl)
        # the pipeline entry is whatever method of the thread-pool member the operations call with the mode array
        from .pipeline import Anchors
        A = Anchors(prog)
        self.A = A
        mdl2 = I.models
        mdl2[A.spawner['q']] = self.pipe_model
        # stream factory: the method returning a pointer to the cipher-step class (its switch tables are C10's business)
        steprec = A.step['rec']
        facs = [f for f in prog.functions.values()
                if prog.type(f['ret']).get('k') == 'ptr' and prog.type(prog.type(f['ret'])['to']).get('rec') == steprec and f.get('rec')]
        if len(facs) > 1:
            from wai.facts import outermost
            facs = outermost(prog, facs)
        if len(facs) != 1:
            raise AnalysisBroken('expected one stream factory method returning %s*, found %d' % (steprec, len(facs)))
        self.factory = facs[0]
        callers = [f['id'] for f in prog.functions.values() if any(n.get('callee', {}).get('m') == self.factory['id'] for n in walk(f['body']) if n['k'] == 'CXXMemberCallExpr')]
        self.factory_caller = callers[0] if callers else self.factory['id']

        def m_factory(I2, st2, fr, n, this, args, an):
            k = st2.comps.get('nstream', 0)
            st2.comps['nstream'] = k + 1
            ivf = None
            keyf = None
            if this is not None and this[0] == 'p':
                for fld in prog.records[self.factory['rec']]['fields']:
                    v = st2.mem.get((this[1], this[2] + (fld['d'][2:],)))
                    if fld['n'] == 'iv':
                        ivf = v
                    elif fld['n'] == 'key':
                        keyf = v
            # the key bytes the factory holds (pointer to, or its own copy of, the operation key)
            kv = None
            if keyf is not None and keyf[0] == 'p' and keyf[2] and isinstance(keyf[2][-1], int):
                kv = tuple(show(I2.load(st2, (keyf[1], keyf[2][:-1] + (keyf[2][-1] + j,)))) for j in range(16))
            elif keyf is None and this is not None and this[0] == 'p':
                for fld in prog.records[self.factory['rec']]['fields']:
                    if fld['n'] == 'key' and prog.type(fld['t']).get('k') == 'array':
                        kv = tuple(show(I2.load(st2, (this[1], this[2] + (fld['d'][2:], j)))) for j in range(16))
            st2.comps[('streamkey', k)] = kv
            log(st2, 'STREAM', k, tuple(args), ivf, keyf, nloc(n))
            return [(st2, P(('stream', k), ()))]
        mdl2[self.factory['q']] = m_factory
        if base is not None:
            # a second operation in the same process: globals, statics and the heap are what the first one left
            st = base.copy()
            st.comps = {k: v for k, v in st.comps.items() if k == 'lockset'}
            st.comps['log'] = ()
            st.trace = ()
        else:
            st = interp.State()
            st.comps['log'] = ()
            st.comps['lockset'] = frozenset()
            st.mem[('G:%s::instance' % A.Gq, ())] = NULL
            if A.live:
                st.mem[(A.live, ())] = C(0)
        models.set_fpos(st, 'fin', C(0))
        models.set_fpos(st, 'out', C(0))
        # Settings object
        SET = ('ext', 'settings')
        srec = prog.records.get('Settings')
        if srec:
            for f in srec['fields']:
                t = prog.type(f['t'])
                nm = f['d'][2:]
                if f['n'] == 'ctype':
                    st.sym['ctype'] = (0, 4)
                    st.mem[(SET, (nm,))] = sym('ctype')
                elif f['n'] == 'htype':
                    st.sym['htype'] = (0, 2)
                    st.mem[(SET, (nm,))] = sym('htype')
                elif t.get('k') == 'bool':
                    st.mem[(SET, (nm,))] = C(1 if no_echo else 0) if no_echo is not None else R(0, 1)
        st.comps[('cap', KEY)] = (C(16), 1)       # the caller's key buffer: 16 bytes
        for j in range(16):
            st.sym['$key%d' % j] = (0, 255)
            st.mem[(KEY, (j,))] = sym('$key%d' % j)
        fin = NULL if fin_null else P(FIN, ())
        args = []
        for p in self.ctor['params']:
            t = prog.type(p['t'])
            if p['n'] == 'fin':
                args.append(fin)
            elif p['n'] == 'out':
                args.append(P(OUT, ()))
            elif p['n'] == 'key':
                args.append(P(KEY, (0,)))
            elif (t.get('k') == 'rec' and t.get('rec') == 'Settings') or (
                    t.get('k') in ('ref', 'ptr') and prog.type(t.get('to')).get('rec') == 'Settings'):
                args.append(P(SET, ()))
            elif 'thread' in p['n']:
                args.append(C(T))
            else:
                args.append(TOP)
        res = I.run(self.ctor, st, this=P(RC, ()), args=args)
        self.interps.append(I)
        return I, [s for s, _ in res]

    def run_op(self, op, T, **kw):
        key = (op, T, tuple(sorted(kw.items())))
        if key in self.results:
            return self.results[key]
        self.current_op = 'ctor'
        I, states = self.build(T, **kw)
        self.current_op = op
        f = self.ops[op]
        out = []
        for s in states:
            args = []
            for p in f['params']:
                if p['n'] == 'fsize':
                    # the caller's idea of the input size: an unknown, named so that tests on it leave a trace in the path condition
                    s.sym['$fsize'] = (0, 1 << 62)
                    args.append(sym('$fsize'))
                elif p['n'] == 'r_buf':
                    args.append(P(RBUF, (0,)))
                else:
                    args.append(TOP)
            I2 = I
            out += I2.run(f, s, this=P(RC, ()), args=args)
        self.rec.saw(I)
        for what, where in I.unmodelled:
            self.rec.broke('unmodelled construct in driver analysis (%s, T=%d): %s at %s' % (op, T, what, where))
        self.results[key] = (I, out)
        return self.results[key]

    def run_second(self, op, T, base):
        """op on a freshly constructed runner, in the process state `base` left by an earlier operation."""
        self.current_op = 'second-' + op
        I, states = self.build(T, base=base)
        f = self.ops[op]
        out = []
        for s in states:
            s.sym['$fsize'] = (0, 1 << 62)
            args = [sym('$fsize') if p['n'] == 'fsize' else (P(RBUF, (0,)) if p['n'] == 'r_buf' else TOP) for p in f['params']]
            out += I.run(f, s, this=P(RC, ()), args=args)
        self.rec.saw(I)
        return I, out

    def thread_counts(self, tier):
        return list(range(1, self.tmax + 1))


def accesses(st, kinds=('W', 'R', 'SEEK', 'PIPE', 'HASHFILE', 'HBUF', 'CLOSE', 'HASHSTR', 'NULLDEREF', 'STREAM', 'VERIFYRET', 'TRUNC')):
    return [e for e in st.comps.get('log', ()) if e[0] in kinds]


def retval_truth(v):
    if v[0] == 'c':
        return bool(v[1])
    return None
