"""C08 Authentication tag is RFC 2104 HMAC over IVs+ciphertext, stored at offset 10."""
from .common import combined
LEVEL = 'other'
RULES = ('R08.a', 'R08.b', 'R06.a', 'S-CMP', 'R05.e', 'R02.b', 'R05.d', 'R13.d', 'R07.e', 'R07.d', 'R07.g', 'R07.t', 'R06.c', 'R08.r', 'R08.f', 'R01.u')


def run(prog, rec, tier):
    from . import static_rules as _sr
    _sr.unsequenced(prog, rec, 'R01.u', 'R01.u@kernel::evaluation-order', ('kernel', 'main.cpp', 'valget'))
    combined(prog, rec, tier, RULES, driver=('layout', 'reader'), hmac=('scmp', 'structure'), hash=('drivers', 'buffer', 'buffer_sim', 'finaliser', 'factory'), compress=True,
             explanation='Content of the inner and outer hash inputs of the tag computation (K0^ipad || stream from current position to '
             'EOF; K0^opad || inner digest, length B+L) for the three hash modes, with named key bytes; tag written at 10 after hashing '
             'the output from 48; verify reads the stored tag at 10 and hashes the input from 48; tag area zero-filled; compare complete. '
             'Digest values themselves are C07\'s business.')
