"""C17 Command line: no crash on any option vector; exit 0 iff the operation succeeded."""
from . import cli_rules, b64_rules
LEVEL = 'other'
RULES = ('R12.a', 'R17.a', 'R17.b', 'R17.c', 'R17.d', 'R17.e', 'R17.f', 'R17.g', 'R15.f', 'R12.d', 'R02.f', 'R16.a', 'R16.b', 'R16.v', 'R16.u', 'R16.l', 'R17.t', 'R17.v')


def run(prog, rec, tier):
    C = cli_rules.CliRules(prog, rec)
    for part in ('parser', 'input_mode', 'exit_mapping', 'exceptions'):
        getattr(C, part)()
    B = b64_rules.B64Rules(prog, rec)
    B.validator_decoder()
    B.locale_fixed()
    # exit status reflects the outcome only if the operation's own result does: result == (verification returned 0)
    from .driver_rules import DriverRules
    DriverRules(prog, rec, tier).reader()
    keep = RULES
    rec.obls = [o for o in rec.obls if o.rule in keep]
    rec.instances = {k: v for k, v in rec.instances.items() if any(k.startswith(r) for r in RULES)}
    rec.extra['explanation'] = (
        'The option parser is interpreted over every sequence of options (getopt_long forks over the option table read from the code, with '
        'widening over the loop): at every successful return the fields the selected operation dereferences are non-NULL; every failure '
        'return is preceded by an "Error" line; numbers from argv are range-checked before being narrowed; no unbounded string write into a '
        'fixed array; library calls that throw are inside try blocks; the default output name is the input path plus a non-empty suffix; '
        'main returns 0 exactly when the operation result was true (or version/help), non-zero otherwise; the key path accepts exactly '
        'strings that decode into the 16-byte buffer. Crash-freedom for all argument vectors is not claimed beyond these bug classes.')
    rec.assume('interactive prompt mode (argc == 1) is outside the property')
