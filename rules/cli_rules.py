"""C17 (and the CLI clauses of C12 / C15): abstract interpretation of the option parser over every sequence of options
(getopt_long forks over the option table taken from the code), required fields per mode at every successful return,
validation before narrowing, bounded string writes, diagnostics on failure paths, exit-status mapping of main,
uncaught library exceptions, default output name differs from the input path."""
from wai import interp, models
from wai.facts import AnalysisBroken, walk, strip, loc as nloc
from wai.values import *


def fkey(fn):
    return '%s::%s' % (fn['file'], fn['q'])


OPTARG = ('ext', 'optarg')
THROWING = {'std::filesystem::file_size': 1, 'std::stoi': None, 'std::stol': None, 'std::stoul': None, 'std::filesystem::canonical': 1,
            'std::filesystem::status': 1, 'std::filesystem::is_regular_file': 1, 'std::filesystem::exists': 1}
# what they throw, and who catches what (the standard exception hierarchy, most derived first)
THROWS = {'std::stoi': ('std::invalid_argument', 'std::out_of_range'), 'std::stol': ('std::invalid_argument', 'std::out_of_range'),
          'std::stoul': ('std::invalid_argument', 'std::out_of_range')}
FS_ERR = ('std::filesystem::filesystem_error',)
BASES = {'std::invalid_argument': 'std::logic_error', 'std::out_of_range': 'std::logic_error', 'std::logic_error': 'std::exception',
         'std::filesystem::filesystem_error': 'std::system_error', 'std::system_error': 'std::runtime_error', 'std::runtime_error': 'std::exception',
         'std::bad_alloc': 'std::exception'}


def caught_by(exc, handler):
    h = handler.replace('class ', '').replace('struct ', '').replace('const ', '').strip()
    if h == '...':
        return True
    for pref in ('', 'std::', 'std::filesystem::'):
        e = exc
        while e is not None:
            if h == e or pref + h == e:
                return True
            e = BASES.get(e)
    return False


def literal_in(node):
    for n in walk(node):
        if n['k'] == 'StringLiteral':
            return n.get('s', '')
    return None


class CliRules:
    def __init__(self, prog, rec):
        self.prog, self.rec = prog, rec
        cands = [f for f in prog.functions.values() if any(n['k'] == 'CallExpr' and n['callee'].get('q') == 'getopt_long' for n in walk(f['body']))]
        if len(cands) != 1:
            raise AnalysisBroken('option parser entry (caller of getopt_long) not found: %d' % len(cands))
        self.loopfn = cands[0]
        mains = [f for f in prog.functions.values() if f['q'] == 'main']
        if len(mains) != 1:
            raise AnalysisBroken('main not found')
        self.main = mains[0]
        # the parser entry is what main calls: the function with the option loop itself, or the one that (through a chain of
        # helpers with one caller each) reaches it
        def callers_of(fn):
            return [g for g in prog.functions.values() if g.get('body') is not None and g['id'] != fn['id'] and any(
                n['k'] in ('CallExpr', 'CXXMemberCallExpr') and (n.get('callee') or {}).get('m') == fn['id'] for n in walk(g['body']))]
        chain = [self.loopfn]
        while self.main['id'] not in {g['id'] for g in callers_of(chain[-1])} and len(chain) < 6:
            cs = callers_of(chain[-1])
            # helpers split off the parser live in its file; a caller elsewhere (main's own helpers) is a user of the parser
            if len(cs) != 1 or cs[0].get('file') != self.loopfn.get('file'):
                break
            chain.append(cs[0])
        self.entry = chain[-1]
        self.entry_chain = list(reversed(chain))        # entry first, the function with the option loop last
        self.codes = self.option_codes()
        v = prog.records.get('vpak_t')
        if v is None:
            raise AnalysisBroken('parameter pack type not found')
        inner = next((prog.records[prog.type(f['t']).get('rec')] for f in v['fields'] if f.get('anon')), None)
        if inner is None:
            raise AnalysisBroken('parameter pack layout not recognised')
        self.fields = {f['n']: f['d'][2:] for f in inner['fields']}
        self.paths = {}

    def kernel_sets(self):
        """Mode numbers the kernel accepts: the selector predicates the verification step applies to header bytes
        (bool-returning static predicate of the stream factory; hash-type mapping with an Unknown enumerator)."""
        prog = self.prog
        out = {}
        for fld, q in (('ctype', 'AesFactory::isType'), ('htype', 'HashFactory::getType')):
            fs = [g for g in prog.functions.values() if g['q'] == q and g.get('body')]
            if len(fs) != 1:
                raise AnalysisBroken('kernel selector predicate %s not found' % q)
            valid = set()
            for k in range(256):
                Ik = interp.Interp(prog, models=dict(models.STD_MODELS))
                r = Ik.run(fs[0], interp.State(), args=[C(k)])
                if len(r) != 1 or r[0][1][0] != 'c':
                    raise AnalysisBroken('%s(%d) not decided' % (q, k))
                x = r[0][1][1]
                if (q.endswith('isType') and x) or (q.endswith('getType') and x != -1 and x != 0xffffffff):
                    valid.add(k)
            out[fld] = (q, valid)
        return out

    def option_codes(self):
        g = self.prog.globals
        so = g.get('shortOpts', {}).get('value')
        lo = g.get('longOpts', {}).get('init')
        if not isinstance(so, list) or lo is None:
            raise AnalysisBroken('option tables not found')
        chars = [c for c in so if c not in (0, ord(':'))]
        witharg = set()
        for i, c in enumerate(so):
            if c == ord(':') and i > 0:
                witharg.add(so[i - 1])
        longs = []
        for entry in lo.get('c', []):
            cs = entry.get('c', [])
            if len(cs) == 4 and 'cv' in cs[3] and cs[3]['cv'] != 0:
                longs.append(cs[3]['cv'])
                if cs[1].get('cv') == 1:
                    witharg.add(cs[3]['cv'])
        codes = sorted(set(chars) | set(longs) | {ord('?')})
        self.witharg = witharg
        return codes

    # ------------------------------------------------------------------ models
    def mk_models(self):
        prog = self.prog
        mdl = dict(models.STD_MODELS)
        codes = self.codes

        def m_getopt(I, st, fr, n, this, args, an):
            out = []
            for c in codes + [-1]:
                s = st.copy()
                s.mem[('G:optarg', ())] = P(OPTARG, (0,)) if c in self.witharg else NULL
                s.note((nloc(n), 'getopt=%s' % (chr(c) if 32 < c < 127 else c)))
                out.append((s, C(c)))
            return out

        def m_strlog(I, st, fr, n, this, args, an):
            t = literal_in(an[0]) if an else None
            if t is not None and t.strip().lower().startswith('error'):
                st.comps['diag'] = True
            return [(st, ('void',))]

        def m_valid(I, st, fr, n, this, args, an):
            s2 = st.copy()
            return [(st, C(0)), (s2, C(1))]

        def m_noop_true(I, st, fr, n, this, args, an):
            return [(st, C(1))]

        def m_atoi(I, st, fr, n, this, args, an):
            nm = '$atoi%d' % n['_id']
            st.sym[nm] = (-(1 << 31), (1 << 31) - 1)
            return [(st, sym(nm))]

        def m_keydecode(I, st, fr, n, this, args, an):
            # decoder(text, length, out): remember for the destination object which text it was decoded from
            if len(args) >= 3 and args[2][0] == 'p':
                src = args[0]
                st.comps[('keysrc', args[2][1])] = ('optarg' if src[0] == 'p' and src[1] == OPTARG else show(src), nloc(n))
            return [(st, C(1))]

        ERRNO = ('ext', 'errno')
        R_ = self

        def m_srand(I, st, fr, n, this, args, an):
            st.comps['seeded'] = True
            return [(st, ('void',))]

        def m_rand(I, st, fr, n, this, args, an):
            R_.rand_calls = getattr(R_, 'rand_calls', [])
            R_.rand_calls.append((nloc(n), bool(st.comps.get('seeded')), I.frames[-1].fn['q'] if I.frames else '?'))
            # the first value a call site delivers on a path has a name (arithmetic on it leaves a trace); later ones are anonymous
            k_ = ('randn', n.get('_id'))
            if not st.comps.get(k_):
                st.comps[k_] = 1
                nm_ = '$rand%s' % n.get('_id')
                st.sym[nm_] = (0, (1 << 31) - 1)
                return [(st, sym(nm_))]
            return [(st, R(0, (1 << 31) - 1))]

        def m_errno_loc(I, st, fr, n, this, args, an):
            # errno is process-wide: at the start of a parse it holds whatever the previous operation left (never written here = UNINIT)
            if (ERRNO, ()) not in st.mem:
                st.mem[(ERRNO, ())] = UNINIT
            return [(st, P(ERRNO, ()))]

        def m_strtol(I, st, fr, n, this, args, an):
            nm = '$atoi%d' % n['_id']
            st.sym[nm] = (-(1 << 63), (1 << 63) - 1)
            endp = args[1] if len(args) > 1 else NULL
            src = args[0]
            if endp[0] == 'p':
                # *endptr = start + (number of characters consumed)
                if src[0] == 'p' and src[2] and not isinstance(src[2][-1], str):
                    kn = '$consumed%d' % n['_id']
                    st.sym[kn] = (0, (1 << 31) - 1)
                    last = src[2][-1]
                    st.mem[(endp[1], endp[2])] = P(src[1], src[2][:-1] + (binop('+', C(last) if isinstance(last, int) else last, sym(kn), st.sym),))
                else:
                    st.mem[(endp[1], endp[2])] = ('ptop', 'strtol-end', False)
            # errno is written only when the value is out of range: a cell nobody has written since the parse began stays that way
            # (a test of it then reads what an earlier operation left), a written one may now hold ERANGE as well
            old = st.mem.get((ERRNO, ()))
            if old is not None and old != UNINIT:
                st.mem[(ERRNO, ())] = join(old, C(34), st.sym)
            return [(st, sym(nm))]

        def m_vecsize(I, st, fr, n, this, args, an):
            if this is not None and this[0] == 'p' and isinstance(this[1], str) and this[1].startswith('G:'):
                g = prog.globals.get(this[1][2:])
                if g and g.get('init'):
                    il = [x for x in walk(g['init']) if x['k'] == 'InitListExpr']
                    if il:
                        return [(st, C(len(il[0].get('c', []))))]
            return [(st, R(0, 1 << 30))]

        # --- a tiny model of std::string good enough for the default output name
        def sparts(I, st, v):
            if v[0] == 'p' and isinstance(v[1], tuple) and v[1][0] == 'str':
                return (v[1][1],)
            if v[0] == 'p':
                p = st.mem.get((v[1], v[2] + ('$str',)))
                if p is not None:
                    return p[1] if p[0] == 'sstr' else (('?',),)
                return (v,)
            if v[0] == 'cstr':
                return v[1]
            if v[0] == 'obj':
                p = st.mem.get((v[1][0], v[1][1] + ('$str',)))
                return p[1] if p is not None and p[0] == 'sstr' else (('?',),)
            return (('?',),)

        def oloc(v):
            if v is None:
                return None
            if v[0] == 'p':
                return (v[1], v[2])
            if v[0] == 'obj':
                return v[1]
            return None

        def m_str_ctor(I, st, fr, n, this, args, an):
            parts = sparts(I, st, args[0]) if args else ()
            l = oloc(this)
            if l is not None:
                st.mem[(l[0], l[1] + ('$str',))] = ('sstr', parts)
            return [(st, ('void',))]

        def m_str_plus(I, st, fr, n, this, args, an):
            parts = ()
            for a in args:
                parts += sparts(I, st, a)
            tmp = (('tmp', n['_id'], fr.ctx), ())
            st.mem[(tmp[0], ('$str',))] = ('sstr', parts)
            return [(st, ('obj', tmp))]

        def m_str_assign(I, st, fr, n, this, args, an):
            l = oloc(this)
            if l is not None and args:
                st.mem[(l[0], l[1] + ('$str',))] = ('sstr', sparts(I, st, args[0]))
            return [(st, this)]

        def m_str_append(I, st, fr, n, this, args, an):
            l = oloc(this)
            if l is not None and args:
                old = st.mem.get((l[0], l[1] + ('$str',)))
                oldp = old[1] if old is not None and old[0] == 'sstr' else (('?',),)
                st.mem[(l[0], l[1] + ('$str',))] = ('sstr', oldp + sparts(I, st, args[0]))
            return [(st, this)]

        def m_str_clear(I, st, fr, n, this, args, an):
            l = oloc(this)
            if l is not None:
                st.mem[(l[0], l[1] + ('$str',))] = ('sstr', ())
            return [(st, ('void',))]

        def m_str_cstr(I, st, fr, n, this, args, an):
            l = oloc(this)
            p = st.mem.get((l[0], l[1] + ('$str',))) if l is not None else None
            return [(st, ('cstr', p[1] if p and p[0] == 'sstr' else (('?',),)))]

        def m_file_size(I, st, fr, n, this, args, an):
            return [(st, TOP)]

        # --- C strings built in char buffers: the same parts model, kept at (object, (0, '$str'))
        def cbuf_key(p):
            if p[0] == 'p' and p[2] and isinstance(p[2][-1], (int, tuple)):
                return (p[1], p[2][:-1] + (0, '$str'))
            return None

        def total_len(I, st, parts):
            tot = C(0)
            for q in parts:
                if isinstance(q, str):
                    tot = binop('+', tot, C(len(q)), st.sym)
                elif isinstance(q, tuple) and q and q[0] == 'p':
                    nm = '$strlen:' + show(q)
                    if nm not in st.sym:
                        return None
                    tot = binop('+', tot, sym(nm), st.sym)
                else:
                    return None
            return tot

        def m_memcpy_str(I, st, fr, n, this, args, an):
            dst, src, cnt = args[0], args[1], args[2]
            k = cbuf_key(dst)
            old = st.mem.get(k) if k is not None else None
            r = models.m_memcpy(I, st, fr, n, this, args, an)
            if k is None:
                return r
            off = dst[2][-1]
            off = C(off) if isinstance(off, int) else off
            parts = old[1] if old is not None and old[0] == 'sstr' else ()
            if off == C(0):
                parts = ()
            have = total_len(I, st, parts)
            piece = None
            if src[0] == 'p' and isinstance(src[1], tuple) and src[1][0] == 'str' and cnt[0] == 'c' and cnt[1] in (len(src[1][1]), len(src[1][1]) + 1):
                piece = src[1][1]
            elif src[0] == 'p' and cnt == sym('$strlen:' + show(src)):
                piece = src
            if piece is not None and have is not None and (have == off or compare('==', have, off, st.sym) is True):
                st.mem[k] = ('sstr', parts + (piece,))
            else:
                st.mem[k] = ('sstr', (('?',),))
            return r

        def m_strcpy_str(I, st, fr, n, this, args, an):
            dst, src = args[0], args[1]
            I.emit('strwrite', st, node=n, dst=dst, args=args, argnodes=an, bounded=None)
            k = cbuf_key(dst)
            if k is not None:
                st.mem[k] = ('sstr', sparts(I, st, src))
            return [(st, dst)]

        def m_strcat_str(I, st, fr, n, this, args, an):
            dst, src = args[0], args[1]
            I.emit('strwrite', st, node=n, dst=dst, args=args, argnodes=an, bounded=None)
            k = cbuf_key(dst)
            if k is not None:
                old = st.mem.get(k)
                st.mem[k] = ('sstr', (old[1] if old is not None and old[0] == 'sstr' else (('?',),)) + sparts(I, st, src))
            return [(st, dst)]

        def fmt_parts(I, st, fmt, rest):
            """parts of the string a printf-style call produces, for formats made of text and %s only; None otherwise"""
            if fmt is None or fmt[0] != 'p' or not (isinstance(fmt[1], tuple) and fmt[1][0] == 'str'):
                return None
            text, rest, parts = fmt[1][1], list(rest), ()
            i, lit = 0, ''
            while i < len(text):
                if text[i] == '%' and i + 1 < len(text) and text[i + 1] == 's' and rest:
                    if lit:
                        parts += (lit,)
                        lit = ''
                    parts += sparts(I, st, rest.pop(0))
                    i += 2
                elif text[i] == '%' and i + 1 < len(text) and text[i + 1] == '%':
                    lit += '%'
                    i += 2
                elif text[i] == '%':
                    return None
                else:
                    lit += text[i]
                    i += 1
            if lit:
                parts += (lit,)
            return parts

        def m_snprintf_str(I, st, fr, n, this, args, an):
            r = models.m_snprintf(I, st, fr, n, this, args, an)
            k = cbuf_key(args[0])
            if k is not None:
                parts = fmt_parts(I, st, args[2] if len(args) > 2 else None, args[3:])
                # a bounded write may cut the name short: what is dropped is a suffix
                st.mem[k] = ('sstr', (('?',),) if parts is None else parts + (('$maybe-truncated', show(args[1])),))
            return r

        def m_sprintf_str(I, st, fr, n, this, args, an):
            r = models.m_sprintf(I, st, fr, n, this, args, an)
            k = cbuf_key(args[0])
            if k is not None:
                parts = fmt_parts(I, st, args[1] if len(args) > 1 else None, args[2:])
                st.mem[k] = ('sstr', (('?',),) if parts is None else parts)
            return r

        def m_scanf_str(I, st, fr, n, this, args, an):
            # "%<w>s" into a char buffer: the buffer holds one word typed by the user, at most w characters (unbounded without w)
            fmt = args[0] if args else None
            text = fmt[1][1] if fmt is not None and fmt[0] == 'p' and isinstance(fmt[1], tuple) and fmt[1][0] == 'str' else None
            rest = list(args[1:])
            if text is not None:
                import re as _re
                for m_ in _re.finditer(r'%(\*?)(\d*)(l{0,2}|h{0,2})([sdcuxfi]|\[[^\]]*\])', text):
                    if m_.group(1) == '*':
                        continue
                    if not rest:
                        break
                    dst = rest.pop(0)
                    if m_.group(4) == 's' and dst[0] == 'p':
                        k = cbuf_key(dst)
                        I.emit('strwrite', st, node=n, dst=dst, args=args, argnodes=an, bounded=C(int(m_.group(2)) + 1) if m_.group(2) else None)
                        models.write_region(I, st, dst, TOP, 'scanf', n) if models.region_of(dst) else None
                        if k is not None:
                            tok = ('$typed', n['_id'])
                            st.mem[k] = ('sstr', (tok,))
                            st.comps[('maxlen', tok)] = int(m_.group(2)) if m_.group(2) else None
                    elif dst[0] == 'p':
                        if models.region_of(dst):
                            models.write_region(I, st, dst, TOP, 'scanf', n)
                        else:
                            I.store(st, (dst[1], dst[2]), TOP, node=n)
                return [(st, TOP)]
            return models.m_scanf(I, st, fr, n, this, args, an)

        def m_str_sub(I, st, fr, n, this, args, an):
            # substr of a string: some contiguous part of it (kept as a marker over the original parts)
            l = oloc(this)
            p_ = st.mem.get((l[0], l[1] + ('$str',))) if l is not None else None
            parts = p_[1] if p_ is not None and p_[0] == 'sstr' else (('?',),)
            tmp = (('tmp', n['_id'], fr.ctx), ())
            st.mem[(tmp[0], ('$str',))] = ('sstr', (('$part-of', parts),))
            return [(st, ('obj', tmp))]

        mdl.update({'scanf': m_scanf_str, 'std::basic_string::substr': m_str_sub, 'std::basic_string::find_last_of': m_file_size,
                    'std::basic_string::find': m_file_size, 'std::basic_string::rfind': m_file_size})
        mdl.update({'getopt_long': m_getopt, 'strlog': m_strlog, 'is_valid_b64': m_valid, 'base64_to_hex': m_keydecode,
                    'hex_to_base64': m_noop_true, 'atoi': m_atoi, 'std::stoi': m_atoi, 'std::stol': m_atoi, 'std::stoul': m_atoi, '__errno_location': m_errno_loc, 'rand': m_rand, 'srand': m_srand, 'strtol': m_strtol, 'strtoul': m_strtol, 'std::vector::size': m_vecsize,
                    'std::basic_string::basic_string': m_str_ctor, 'std::operator+': m_str_plus,
                    'std::basic_string::operator=': m_str_assign, 'std::basic_string::operator+=': m_str_append, 'std::basic_string::append': m_str_append,
                    'std::basic_string::clear': m_str_clear, 'std::basic_string::c_str': m_str_cstr,
                    'std::filesystem::file_size': m_file_size, 'memcpy': m_memcpy_str, 'strcpy': m_strcpy_str, 'strcat': m_strcat_str,
                    'snprintf': m_snprintf_str, 'sprintf': m_sprintf_str})
        return mdl

    # ------------------------------------------------------------------ parser exploration
    def parser(self):
        prog, rec = self.prog, self.rec
        f = self.entry
        where = '%s:%s' % (f['file'], f['line'])
        R = self

        class Lst:
            def __init__(self):
                self.fopens = []
                self.fopen_ops = []
                self.narrow = []
                self.strw = []

            def on_fopen(self, I, st, node, root, mode, path):
                if path[0] == 'p' and not (isinstance(path[1], tuple) and path[1][0] == 'str'):
                    p_ = st.mem.get((path[1], path[2] + ('$str',)))
                    if p_ is not None and p_[0] == 'sstr':
                        path = ('cstr', p_[1])
                self.fopens.append((node, mode, path))
                ops = set()
                for k, v in st.mem.items():
                    if k[1] and k[1][-1] == R.fields['mode']:
                        sv = setof(v)
                        ops |= sv if sv is not None else {None}
                self.fopen_ops.append((node, mode, path, ops))

            def on_prestore(self, I, st, loc, val, node):
                # validate before narrowing: an argv-derived integer stored into a narrower field
                if loc is None or not loc[1] or not isinstance(loc[1][-1], str):
                    return
                syms = [s for s, _ in val[2]] if val[0] == 'l' else []
                if any(s.startswith('$atoi') for s in syms):
                    fld = loc[1][-1]
                    t = None
                    for r in I.prog.records.values():
                        for x in r['fields']:
                            if x['d'][2:] == fld:
                                t = I.prog.type(x['t'])
                    tr = type_range(t) if t else None
                    r = rng(val, st.sym)
                    ok = tr is not None and r is not None and tr[0] <= r[0] and r[1] <= tr[1]
                    self.narrow.append((node, fld, r, tr, ok))

            def on_strwrite(self, I, st, node, dst, args, argnodes, bounded):
                self.strw.append((node, dst, args, bounded))

            def on_memcpy(self, I, st, node, dst, src, size):
                # a decoded key copied as a whole keeps its origin
                if dst is not None and src is not None and dst[0] == 'p' and src[0] == 'p':
                    ks = st.comps.get(('keysrc', src[1]))
                    if ks is not None:
                        st.comps[('keysrc', dst[1])] = ks

        L = Lst()
        I = interp.Interp(prog, listeners=[L], models=self.mk_models())
        st = interp.State()
        st.comps['diag'] = False
        st.comps['lockset'] = frozenset()
        res = I.run(f, st, args=[TOP, ('ptop', 'argv', False)])
        rec.saw(I)
        for what, wh in I.unmodelled:
            if 'external call' in what and any(x in what for x in ('srand', 'time', 'rand')):
                continue
            rec.broke('unmodelled construct in option parser: %s at %s' % (what, wh))
        # ---- R15.f no field of a freshly allocated parameter pack is read before it is written (it would hold whatever the heap held:
        #      in a long-lived process, the previous command line's values)
        ur = sorted({('errno' if l and l[0] == ('ext', 'errno') else str(l[1][-1]) if l and l[1] else show(P(*l)) if l else '?', w) for l, w in I.uninit_reads})
        for fld, w in ur:
            rec.ob('R15.f', 'R15.f@%s::read-before-write::%s' % (fkey(f), fld), False, w,
                   ('errno is tested without having been cleared since the parse began: it still holds what an earlier operation left' if fld == 'errno' else
                    '%s is read before anything was stored in it since it was allocated' % fld))
        rec.ob('R15.f', 'R15.f@%s::pack-fields-written-before-read' % fkey(f), not ur, where,
               'every scalar read in the parser sees a value stored since the allocation: %s' % ('yes' if not ur else 'NO'))
        # ---- R17.t constant tables subscripted with a value computed from the command line / the input's size
        seen_t = set()
        for name, idx, r, size, loc_ in list(I.oob_may) + [(None, C(i_), (i_, i_), n_, None) for i_, n_ in I.oob]:
            if (name, loc_) in seen_t:
                continue
            seen_t.add((name, loc_))
            rec.ob('R17.t', 'R17.t@%s::table-subscript-in-range::%s' % (fkey(f), name), False, loc_ or where,
                   'constant table %s (%d entries) is subscripted with %s in [%d, %d] on a path of the parse' % (name, size, show(idx), r[0], r[1]))
        rec.ob('R17.t', 'R17.t@%s::table-subscripts-in-range' % fkey(f), not seen_t, where,
               'every subscript of a constant table on the analysed paths of the parse stays inside the table: %s' % ('yes' if not seen_t else 'NO'))
        # ---- R17.v floating values converted to an integer type lie inside that type ([conv.fpint]: undefined otherwise)
        for wh_, fn_, lo_, hi_, bits_, sg_ in I.float_conv:
            rec.ob('R17.v', 'R17.v@%s::float-to-integer-in-range' % fn_, False, wh_,
                   'a floating value in [%s, %s] is converted to a %d-bit %s integer: undefined for the part outside the type (the result then indexes / sizes whatever follows)' % (
                       lo_, hi_, bits_, 'signed' if sg_ else 'unsigned'))
        rec.ob('R17.v', 'R17.v@%s::float-conversions-in-range' % fkey(f), not I.float_conv, where,
               'every conversion of a floating value with a decided range to an integer type on the analysed paths of the parse fits the type: %s' % (
                   'yes' if not I.float_conv else 'NO'))
        # ---- R18.s the seed buffer and the random key are drawn from a generator that this parse has seeded: an unseeded rand()
        #      gives every process the same 256 seed bytes, hence the same IVs for every file
        rc = getattr(self, 'rand_calls', [])
        unseeded = sorted({(w, fn) for w, sd, fn in rc if not sd})
        for w, fn in unseeded:
            rec.ob('R18.s', 'R18.s@%s::rand-after-srand' % fn, False, w, 'rand() is reached on a path of the parse on which srand() has not been called: the values are the same in every process')
        ovf = [t_ for t_ in I.truncs if t_['syms'] and all(x.startswith('$rand') for x in t_['syms'])]
        for t_ in ovf:
            rec.ob('R18.s', 'R18.s@%s::arithmetic-on-rand-stays-in-range' % t_['fn'], False, t_['where'],
                   '%s with rand() in [0, RAND_MAX] has the range [%d, %d]: it does not fit the %d-bit %s type it is computed in, so most generator values give a meaningless byte' % (
                       t_['expr'], t_['range'][0], t_['range'][1], t_['bits'], 'signed' if t_['signed'] else 'unsigned'))
        rec.ob('R18.s', 'R18.s@%s::generator-seeded' % fkey(f), not unseeded, where,
               'every rand() call of the parse (%d evaluation(s)) comes after srand() on its path' % len(rc))
        # ---- R17.a required fields per mode at every successful return
        need = {ord('e'): ('out', 'key'), ord('d'): ('out', 'key'), ord('v'): ('key',), ord('E'): ('out', 'key'), ord('D'): ('out', 'key')}
        nret = 0
        nkey = [0, 0]
        for s, v in res:
            if v[0] == 'null':
                ok = s.comps.get('diag') is True
                rec.ob('R17.e', 'R17.e@%s::failure-has-diagnostic' % fkey(f), ok, where,
                       'parser gives up %s an "Error" line' % ('after' if ok else 'WITHOUT'), path=[str(x) for x in s.trace[-8:]])
                continue
            if v[0] != 'p':
                rec.ob('R17.a', 'R17.a@%s::return-value' % fkey(f), None, where, 'unexpected return value %s' % show(v))
                continue
            nret += 1
            obj = v[1]
            base = v[2][:-2] if len(v[2]) >= 2 else ()
            mode = I.load(s, (obj, base + (self.fields['mode'],)))
            ms = setof(mode)
            if ms is None:
                rec.ob('R17.a', 'R17.a@%s::mode-known-at-return' % fkey(f), None, where, 'mode at a successful return is %s' % show(mode))
                continue
            for m in ms:
                for fld in need.get(m, ()):
                    pv = I.load(s, (obj, base + (self.fields[fld],)))
                    nonnull = pv[0] == 'p' or (pv[0] == 'ptop' and not pv[2])
                    rec.ob('R17.a', 'R17.a@%s::mode-%s-needs-%s' % (fkey(f), chr(m), fld), nonnull, where,
                           'successful return with mode %r and %s %s' % (chr(m), fld, 'set' if nonnull else 'possibly NULL (%s): dereferenced later' % show(pv)),
                           path=[str(x) for x in s.trace[-8:]])
            # R06.k: key bytes that were decoded from text were decoded from the argument of the key option
            kv = I.load(s, (obj, base + (self.fields['key'],)))
            if kv[0] == 'p':
                src_ = s.comps.get(('keysrc', kv[1]))
                nkey[0] += 1
                if src_ is not None:
                    nkey[1] += 1
                    rec.ob('R06.k', 'R06.k@%s::key-decoded-from-the-key-option' % fkey(f), src_[0] == 'optarg', src_[1],
                           'successful return: the key handed to the kernel was decoded from %s' % (
                               'the argument of the key option' if src_[0] == 'optarg' else '%s, NOT from the argument of the key option' % src_[0]),
                           path=[str(x) for x in s.trace[-8:]])
        rec.count('R17.a successful parser returns', nret, 3)
        rec.ob('R06.k', 'R06.k@%s::key-sources' % fkey(f), nkey[1] >= 1, where,
               '%d successful returns carry a key, %d of them a key decoded from text' % (nkey[0], nkey[1]))
        # ---- R17.g mode numbers that pass the parser are ones the kernel factories know (at the stores of validated numbers)
        ksets = self.kernel_sets()
        ng = 0
        for node, fld, r, tr, ok in L.narrow:
            short = fld.split('::')[-1]
            if short not in ksets:
                continue
            fn, valid = ksets[short]
            ok2 = r is not None and r[1] - r[0] < 300 and all(x in valid for x in range(r[0], r[1] + 1))
            ng += 1
            rec.ob('R17.g', 'R17.g@%s::accepted-%s-known-to-kernel' % (fkey(f), short), ok2, nloc(node),
                   'command-line number stored as %s lies in %s after validation; %s knows %s' % (short, r, fn, sorted(valid)))
        rec.count('R17.g validated mode numbers', ng, 2)
        # ---- R17.c
        seen = set()
        for node, fld, r, tr, ok in L.narrow:
            rec.ob('R17.c', 'R17.c@%s::validated-before-narrowing-%s' % (fkey(f), fld.split('::')[-1]), ok, nloc(node),
                   'argv-derived number in %s stored into %s (range %s)' % (r, fld, tr))
        rec.count('R17.c narrowing stores', len(L.narrow), 2)
        # ---- R17.b bounded string writes
        for node, dst, args, bounded in L.strw:
            unbounded_src = any(a[0] == 'p' and a[1] == OPTARG for a in args[1:]) or any(a[0] == 'ptop' for a in args[1:])
            ok = bounded is not None or not unbounded_src
            rec.ob('R17.b', 'R17.b@%s::bounded-string-write' % fkey(f), ok, nloc(node),
                   'formatted/string copy into %s from %s source' % (show(dst), 'a length-bounded' if ok else 'an UNBOUNDED command-line'))
        rec.ob('R17.b', 'R17.b@%s::no-unbounded-copy-of-argv-text' % fkey(f), not any(o.rule == 'R17.b' and o.ok is False for o in rec.obls), where,
               'no sprintf/strcpy/strcat of command-line text into a fixed buffer without a bound (%d formatted/string writes on the analysed paths)' % len(L.strw))
        # ---- R12.d default output name differs from the input path
        ndef = 0
        for node, mode, path in L.fopens:
            if path[0] == 'cstr' and 'w' in mode:
                ndef += 1
                parts = path[1]
                opt = [p for p in parts if isinstance(p, tuple) and p and p[0] == 'p' and p[1] == OPTARG]
                lits = [p for p in parts if isinstance(p, str) and p]
                ok = bool(opt) and bool(lits) and parts.index(opt[0]) == 0
                rec.ob('R12.d', 'R12.d@%s::default-output-differs-from-input' % fkey(f), ok, nloc(node),
                       'default output file name = %s: %s' % (' + '.join(repr(p) if isinstance(p, str) else 'input path' for p in parts) or 'empty',
                                                             'input path with a non-empty suffix' if ok else 'may EQUAL the input path (opened "wb+": the input is truncated)'))
            if path[0] == 'p' and path[1] == OPTARG and 'r' in mode and '+' in mode or (path[0] == 'p' and path[1] == OPTARG and 'w' in mode and False):
                pass
        rec.count('R12.d default-output opens', ndef, 1)
        # ---- R02.g a file opened by the parser is either read-only or created/truncated: an output that keeps old bytes beyond the
        #      new end is not the documented file (and its tag covers the stale tail)
        for node, mode, path, ops in L.fopen_ops:
            ro = mode.startswith('r') and '+' not in mode
            tr = mode.startswith('w')
            rec.ob('R02.g', 'R02.g@%s::open-read-only-or-truncating' % fkey(f), ro or tr, nloc(node),
                   'fopen mode "%s": %s' % (mode, 'read-only' if ro else 'creates/truncates' if tr else 'opens an existing file for writing WITHOUT truncating it'))
        # ---- R12.e verification opens no output file the user did not name
        for node, mode, path, ops in L.fopen_ops:
            if 'w' in mode or 'a' in mode or '+' in mode:
                named = path[0] == 'p' and path[1] == OPTARG
                ok = named or (None not in ops and ord('v') not in ops)
                rec.ob('R12.e', 'R12.e@%s::no-default-output-for-verify' % fkey(f), ok, nloc(node),
                       'file opened for writing (%s) %s while the selected operation is in {%s}' % (
                           mode, 'under the name the user gave' if named else 'under a name the parser made up',
                           ','.join(sorted('?' if o is None else chr(o) for o in ops))))
        # the input is opened read-only
        for node, mode, path in L.fopens:
            if path[0] == 'p' and path[1] == OPTARG:
                pass
        self.fopens = L.fopens

    # ------------------------------------------------------------------ input opened read-only
    def input_mode(self):
        rec = self.rec
        f = self.entry
        # the fopen whose result is stored in the input field
        nin = 0
        for fn in self.prog.functions.values():
            for n in walk(fn['body']):
                if n['k'] == 'BinaryOperator' and n['op'] == '=':
                    l = strip(n['lhs'])
                    r = strip(n['rhs'])
                    if l.get('k') == 'MemberExpr' and l.get('d', '')[2:] == self.fields['fp'] and r.get('k') == 'CallExpr' and r['callee'].get('q') == 'fopen':
                        m = literal_in(r['args'][1])
                        nin += 1
                        rec.ob('R02.f', 'R02.f@%s::input-opened-read-only' % fkey(fn), m in ('rb', 'r'), nloc(n), 'input file opened with mode %r' % m)
        rec.count('R02.f input opens', nin, 1)

    # ------------------------------------------------------------------ interactive front end: default output names
    def interactive(self):
        """R12.g: in the dialogue front end every file opened for writing under a name the program made up is named
        <what the user typed for the input, or a part of it> + <non-empty literal suffix>, and a length-bounded formatting call
        cannot cut the whole suffix off.  The dialogue's helper functions (menus, key entry) are stubbed."""
        prog, rec = self.prog, self.rec
        cands = [g for g in prog.functions.values() if g['q'] == 'get_v_mod1' and g.get('body')]
        if len(cands) != 1:
            rec.ob('R12.g', 'R12.g@interactive-front-end', None, '', 'dialogue entry get_v_mod1 not found')
            return
        f = cands[0]
        where = '%s:%s' % (f['file'], f['line'])
        mdl = self.mk_models()

        def m_void(I, st, fr, n, this, args, an):
            return [(st, ('void',))]

        def m_ptr(I, st, fr, n, this, args, an):
            return [(st, ('ptop', 'key', False))]

        def m_num(I, st, fr, n, this, args, an):
            return [(st, R(0, 255))]
        # helpers of the dialogue that neither open files nor build names (found by what they return / take)
        for g in prog.functions.values():
            if g['file'] != f['file'] or g['id'] == f['id'] or not g.get('body'):
                continue
            opens = any(x['k'] == 'CallExpr' and x.get('callee', {}).get('q') == 'fopen' for x in walk(g['body']))
            if opens:
                continue
            rt = prog.type(g['ret'])
            if rt.get('k') == 'ptr':
                mdl[g['q']] = m_ptr
            elif rt.get('k') in ('int', 'bool'):
                mdl[g['q']] = m_num
            elif rt.get('k') == 'void':
                mdl[g['q']] = m_void
        for q in ('version', 'help', 'printf', 'puts', 'stat', 'strlog'):
            mdl.setdefault(q, m_void)
        mdl['printf'] = m_void
        mdl['stat'] = lambda I, st, fr, n, this, args, an: [(st, C(0))]
        opens = []

        class Lst:
            def on_fopen(self, I, st, node, root, mode, path):
                nm = path
                if path[0] == 'p' and not (isinstance(path[1], tuple) and path[1][0] == 'str'):
                    p_ = st.mem.get((path[1], path[2][:-1] + (0, '$str') if path[2] and isinstance(path[2][-1], int) else path[2] + ('$str',)))
                    if p_ is not None and p_[0] == 'sstr':
                        nm = ('cstr', p_[1])
                opens.append((node, mode, nm, dict((k[1], v) for k, v in st.comps.items() if isinstance(k, tuple) and k and k[0] == 'maxlen')))
        # R18.w: the seed the user types goes into the byte array of the pack; a field width on that read that is smaller than
        # the array leaves the rest of the typed seed unread, so seeds that differ only beyond it give the same IVs
        seed_fields = {x['d'][2:]: prog.type(x['t']) for r in prog.records.values() for x in r['fields']
                       if x['d'][2:] in self.fields.values() and (prog.type(x['t']) or {}).get('k') == 'array'
                       and (prog.type((prog.type(x['t']) or {}).get('el')) or {}).get('bits') == 8}
        seed_reads = []

        def on_strwrite(self_, I, st, node, dst, args, argnodes, bounded):
            if dst is not None and dst[0] == 'p':
                fld = next((q for q in dst[2] if isinstance(q, str) and q in seed_fields), None)
                if fld is not None and node.get('callee', {}).get('q') == 'scanf':
                    seed_reads.append((nloc(node), fld, bounded))
        Lst.on_strwrite = on_strwrite
        I = interp.Interp(prog, listeners=[Lst()], models=mdl)
        st = interp.State()
        st.comps['diag'] = False
        st.comps['lockset'] = frozenset()
        try:
            I.run(f, st, args=[])
        except interp.Budget as e:
            rec.ob('R12.g', 'R12.g@%s::default-output-names' % fkey(f), None, where, 'dialogue front end not analysed: %s' % e)
            return
        rec.saw(I)
        inputs = [o for o in opens if o[1].startswith('r') and '+' not in o[1]]
        typed_in = set()
        for node, mode, nm, ml in inputs:
            if nm[0] == 'cstr':
                typed_in |= {q for q in nm[1] if isinstance(q, tuple) and q and q[0] == '$typed'}
        n = 0
        for node, mode, nm, ml in opens:
            if not (mode.startswith('w') or '+' in mode or mode.startswith('a')):
                continue
            if nm[0] != 'cstr':
                rec.ob('R12.g', 'R12.g@%s::default-output-names' % fkey(f), None, nloc(node), 'name of the file opened "%s" is not followed' % mode)
                continue
            parts = nm[1]
            trunc = [q for q in parts if isinstance(q, tuple) and q and q[0] == '$maybe-truncated']
            body = [q for q in parts if not (isinstance(q, tuple) and q and q[0] == '$maybe-truncated')]
            if len(body) == 1 and isinstance(body[0], tuple) and body[0][0] == '$typed' and body[0] not in typed_in:
                continue        # a name the user typed for the output, as such: the user's choice
            n += 1
            head = body[0] if body else None
            base = head[1][0] if isinstance(head, tuple) and head and head[0] == '$part-of' and head[1] else head
            from_input = isinstance(base, tuple) and base and base[0] == '$typed' and base in typed_in
            lits = ''.join(q for q in body[1:] if isinstance(q, str))
            ok = from_input and bool(lits) and all(isinstance(q, str) for q in body[1:])
            det = 'name = %s' % ' + '.join(repr(q) if isinstance(q, str) else ('input name' if q is head and from_input else str(q)) for q in body)
            if ok and trunc:
                bound = trunc[0][1]
                mx = ml.get(base)
                keep = bound.isdigit() and mx is not None and mx < int(bound) - 1
                ok = keep
                det += '; written with a bound of %s bytes, the input name has at most %s characters: %s' % (
                    bound, mx if mx is not None else 'an unbounded number of', 'at least one suffix character always survives' if keep else 'the WHOLE suffix can be cut off, the output name then EQUALS the input name')
            rec.ob('R12.g', 'R12.g@%s::default-output-names' % fkey(f), ok, nloc(node),
                   'file opened "%s" under a name made by the program: %s' % (mode, det))
        rec.count('R12.g program-made output names in the dialogue', n, 2)
        for wh_, fld, bounded in sorted(set(seed_reads), key=str):
            cap_ = seed_fields[fld].get('n') or 0
            ok = bounded is None or (bounded[0] == 'c' and bounded[1] >= cap_)
            rec.ob('R18.w', 'R18.w@%s::typed-seed-read-whole' % fkey(f), ok, wh_,
                   'the seed typed in the dialogue is read into %s (%d bytes) %s' % (
                       fld, cap_, 'without a field width' if bounded is None else 'with a field width of %s characters%s' % (
                           bounded[1] - 1 if bounded[0] == 'c' else show(bounded), '' if ok else ': what is typed beyond that never reaches the IV derivation')))
        rec.ob('R18.w', 'R18.w@%s::typed-seed-reads' % fkey(f), bool(seed_reads) and all(
            b is None or (b[0] == 'c' and b[1] >= (seed_fields[fl].get('n') or 0)) for _, fl, b in seed_reads), where,
               '%d read(s) of a typed seed into the pack\'s byte array found in the dialogue' % len(set(seed_reads)))

    # ------------------------------------------------------------------ key entry of the dialogue
    def interactive_key(self):
        """R16.g: in every function of the front ends that both validates and decodes a key text, the fixed-length decode is reached
        only on paths on which the validator has just accepted that text (a failed read, an exhausted retry loop ... must not fall
        through to the decode with a rejected or empty text)."""
        prog, rec = self.prog, self.rec
        # the functions whose call closure contains both the validator and the decoder and none of whose callees already does
        direct = {}
        for g in prog.functions.values():
            if g.get('body') is None:
                continue
            direct[g['id']] = ({(x.get('callee') or {}).get('q') for x in walk(g['body']) if x['k'] == 'CallExpr'},
                               {(x.get('callee') or {}).get('m') for x in walk(g['body']) if x['k'] in ('CallExpr', 'CXXMemberCallExpr')} - {None})
        clos = {}

        def closure(fid, depth=0):
            if fid in clos:
                return clos[fid]
            clos[fid] = set()
            names, callees = direct.get(fid, (set(), set()))
            out = set(names)
            if depth < 6:
                for c_ in callees:
                    if c_ in direct:
                        out |= closure(c_, depth + 1)
            clos[fid] = out
            return out
        both = {fid for fid in direct if {'is_valid_b64', 'base64_to_hex'} <= closure(fid)}
        fns = [prog.functions[fid] for fid in sorted(both) if not any(c_ in both for c_ in direct[fid][1])]
        n = 0
        for g in fns:
            events = []

            def m_valid(I, st, fr, nd, this, args, an):
                s2 = st.copy()
                st.comps['keytext_ok'] = (0, show(args[0]))
                s2.comps['keytext_ok'] = (1, show(args[0]))
                return [(st, C(0)), (s2, C(1))]

            def m_dec(I, st, fr, nd, this, args, an):
                events.append((nloc(nd), st.comps.get('keytext_ok'), show(args[0]), [str(x) for x in st.trace[-6:]]))
                return [(st, C(1))]

            def m_scan(I, st, fr, nd, this, args, an):
                # the text may be replaced (or not, when the read fails): whatever was established about the old text is void
                st.comps.pop('keytext_ok', None)
                s2 = st.copy()
                return [(st, C(1)), (s2, C(-1))]
            mdl = self.mk_models()
            mdl.update({'is_valid_b64': m_valid, 'base64_to_hex': m_dec, 'scanf': m_scan, 'printf': lambda I, st, fr, nd, this, args, an: [(st, TOP)],
                        'puts': lambda I, st, fr, nd, this, args, an: [(st, TOP)]})
            I = interp.Interp(prog, models=mdl)
            st = interp.State()
            st.comps['diag'] = False
            st.comps['lockset'] = frozenset()
            try:
                I.run(g, st, args=[('ptop', 'arg', False)] * len(g['params']))
            except interp.Budget as e:
                rec.ob('R16.g', 'R16.g@%s::decode-only-after-accept' % fkey(g), None, '%s:%s' % (g['file'], g['line']), 'not analysed: %s' % e)
                continue
            rec.saw(I)
            for wh, okv, txt, path in events:
                n += 1
                good = okv is not None and okv[0] == 1 and okv[1] == txt
                rec.ob('R16.g', 'R16.g@%s::decode-only-after-accept' % fkey(g), good, wh,
                       'the key text %s is decoded %s' % (txt, 'after the validator accepted it' if good else
                                                          ('although the validator REJECTED it' if okv is not None and okv[0] == 0 else 'WITHOUT a verdict of the validator on it') + ' on this path'), path=path)
        rec.count('R16.g gated key decodes', n, 1)

    # ------------------------------------------------------------------ exit status mapping
    def exit_mapping(self):
        prog, rec = self.prog, self.rec
        f = self.main
        where = '%s:%s' % (f['file'], f['line'])
        VP = ('ext', 'vpak')
        mdl = dict(models.STD_MODELS)

        def m_parser(I, st, fr, n, this, args, an):
            s2 = st.copy()
            st.comps['parsed'] = 'null'
            s2.comps['parsed'] = 'ok'
            # the mode character is one fixed unknown: copies of it in locals are refined together with the field
            s2.sym['$mode'] = (-128, 255)
            s2.mem[(VP, (self.fields['mode'],))] = sym('$mode')
            return [(st, NULL), (s2, P(VP, ('vpak_t::buf', 0)))]

        def m_inter(I, st, fr, n, this, args, an):
            st.comps['parsed'] = 'interactive'
            st.sym['$mode'] = (-128, 255)
            st.mem[(VP, (self.fields['mode'],))] = sym('$mode')
            return [(st, P(VP, ('vpak_t::buf', 0)))]

        def m_exec(name):
            def m(I, st, fr, n, this, args, an):
                runs.append((name, st.comps.get('runner_T'), nloc(n)))
                if name == 'execute_encrypt':
                    # the seed handed to the kernel: a pointer argument into the parameter pack
                    for a in args:
                        if is_ptr(a) and a[0] == 'p' and a[1] == VP:
                            seeds.append((nloc(n), a[2]))
                s2 = st.copy()
                st.comps['op'] = (name, 0)
                s2.comps['op'] = (name, 1)
                return [(st, C(0)), (s2, C(1))]
            return m
        runs = []
        seeds = []
        rcq = None

        def m_rc_ctor(I, st, fr, n, this, args, an):
            ctor = [g for g in prog.functions.values() if g.get('ctor') and g.get('rec') == rcq]
            tv = None
            if len(ctor) == 1:
                for i, p_ in enumerate(ctor[0]['params']):
                    if 'thread' in p_['n'] and i < len(args):
                        tv = args[i]
            st.comps['runner_T'] = show(tv) if tv is not None else None
            return [(st, ('void',))]

        def m_void(I, st, fr, n, this, args, an):
            return [(st, ('void',))]
        mdl[self.entry['q']] = m_parser
        mdl['get_v_mod1'] = m_inter
        for q in ('version', 'help'):
            mdl[q] = m_void
        rc = next(r for r in prog.records.values() if sum(1 for m in r['methods'] if m['n'].startswith('execute_')) >= 3)
        for m in rc['methods']:
            if m['n'].startswith('execute_'):
                mdl[rc['q'] + '::' + m['n']] = m_exec(m['n'])
        rcq = rc['q']
        mdl[rc['q'] + '::' + rc['q'].split('::')[-1]] = m_rc_ctor
        mdl[rc['q'] + '::~' + rc['q'].split('::')[-1]] = m_void

        class Ex:
            def on_exit(self, I, st, node, code):
                exits.append((st, code))
        exits = []
        I = interp.Interp(prog, listeners=[Ex()], models=mdl)
        res = I.run(f, interp.State(), args=[TOP, ('ptop', 'argv', False)])
        rec.saw(I)
        n = 0
        for s, v in res:
            n += 1
            op = s.comps.get('op')
            parsed = s.comps.get('parsed')
            mv_ = s.mem.get((VP, (self.fields['mode'],)), TOP)
            mode = setof(mv_) if parsed != 'null' else None
            if mode is None and parsed != 'null' and is_int(mv_) and mv_ != TOP:
                r_ = rng(mv_, s.sym)
                if r_ is not None and r_[1] - r_[0] <= 8:
                    mode = set(range(r_[0], r_[1] + 1))
            zero = compare('==', v, C(0), s.sym) if is_int(v) else None
            if op is not None:
                want = bool(op[1])
                why = '%s returned %s' % (op[0], 'true' if op[1] else 'false')
            elif parsed == 'null':
                want, why = False, 'the option parser failed'
            elif mode is not None and mode <= {ord('V'), ord('h')}:
                want, why = True, 'version/help requested'
            else:
                want, why = False, 'no operation was run (mode %s)' % (sorted(chr(m) for m in mode) if mode else '?')
            ok = zero is not None and zero == want
            rec.ob('R17.d', 'R17.d@%s::exit-status' % fkey(f), ok, where, 'main returns %s when %s (must be %s)' % (show(v), why, '0' if want else 'non-zero'),
                   path=[str(x) for x in s.trace[-6:]])
        for s, code in exits:
            ok = is_int(code) and compare('!=', code, C(0), s.sym) is True
            rec.ob('R17.d', 'R17.d@%s::exit-call-nonzero' % fkey(f), ok, where, 'exit(%s) on a rejected settings value' % show(code))
        rec.count('R17.d main exits', n, 5)
        # ---- R18.m the seed that reaches the kernel is the pack's seed member (not another view of the pack)
        sf = self.fields.get('r_buf')
        seen_m = set()
        for wh_, path_ in seeds:
            if (wh_, path_) in seen_m:
                continue
            seen_m.add((wh_, path_))
            okm = bool(path_) and sf is not None and path_[0] == sf and (len(path_) == 1 or path_[1] in (0, C(0)))
            rec.ob('R18.m', 'R18.m@%s::seed-argument-is-the-seed-member' % fkey(f), okm, wh_,
                   'execute_encrypt is handed &pack%s as its seed (the seed member is %s)' % (''.join('[%s]' % (x,) for x in path_), sf))
        if not seeds:
            rec.ob('R18.m', 'R18.m@%s::seed-argument-is-the-seed-member' % fkey(f), None, where, 'no encrypt call with a pointer into the parameter pack found in main')
        # ---- R01.i the encrypting and the decrypting runner use the same stream count: the header length 48+20T is not stored in
        #      the file, so the reader finds the body only if it assumes the writer's T
        te = sorted({str(t) for n2, t, _ in runs if n2 == 'execute_encrypt'})
        td = sorted({str(t) for n2, t, _ in runs if n2 == 'execute_decrypt'})
        if te and td:
            okt = te == td and len(te) == 1 and te[0].lstrip('-').isdigit()
            rec.ob('R01.i', 'R01.i@%s::same-stream-count-for-encrypt-and-decrypt' % fkey(f), okt, where,
                   'stream count of the runner: encrypt %s, decrypt %s (must be one and the same constant: the body offset 48+20T is not recorded in the file)' % (te, td))
        else:
            rec.ob('R01.i', 'R01.i@%s::same-stream-count-for-encrypt-and-decrypt' % fkey(f), None, where, 'encrypt/decrypt calls not found in main')
        # ---- R12.f the verifying and the decrypting runner are configured alike (same stream count)
        tv = {nm: sorted({str(t) for n2, t, _ in runs if n2 == nm}) for nm in ('execute_verify', 'execute_decrypt')}
        if not tv['execute_verify'] or not tv['execute_decrypt']:
            rec.ob('R12.f', 'R12.f@%s::same-stream-count-for-verify-and-decrypt' % fkey(f), None, where, 'verify/decrypt calls not found in main: %s' % tv)
        else:
            same = tv['execute_verify'] == tv['execute_decrypt'] and len(tv['execute_verify']) == 1 and tv['execute_verify'][0] not in ('None', 'T')
            dep = rec.extra.get('verify_outcome_depends_on_stream_count')
            ok = True if (same or dep is False) else (False if dep else None)
            rec.ob('R12.f', 'R12.f@%s::same-stream-count-for-verify-and-decrypt' % fkey(f), ok, where,
                   'stream count of the runner: verify %s, decrypt %s; the outcome of the shared verification step %s on the stream count (%s)' % (
                       tv['execute_verify'], tv['execute_decrypt'], {True: 'DEPENDS', False: 'does not depend', None: 'is not known to depend'}[dep],
                       rec.extra.get('verify_outcome_signature')))

    # ------------------------------------------------------------------ uncaught exceptions
    def exceptions(self):
        prog, rec = self.prog, self.rec
        # functions reachable from the parser entry and main (option path), interactive prompt excluded
        reach = set()
        stack = [self.entry['id'], self.main['id']]
        while stack:
            x = stack.pop()
            if x in reach or x not in prog.functions:
                continue
            fn = prog.functions[x]
            if fn['q'] == 'get_v_mod1':
                continue
            reach.add(x)
            for n in walk(fn['body']):
                if n['k'] in ('CallExpr', 'CXXMemberCallExpr') and n.get('callee', {}).get('m') in prog.functions:
                    stack.append(n['callee']['m'])
                # address-taken functions, directly or through a constant table the function reads (handler tables)
                if n['k'] == 'DeclRefExpr' and n.get('dk') in ('Function', 'CXXMethod') and n.get('d') in prog.functions:
                    stack.append(n['d'])
                if n['k'] == 'DeclRefExpr' and n.get('glob'):
                    g = prog.globals.get(str(n.get('d', ''))[2:])
                    if g is not None and g.get('init') is not None:
                        for m in walk(g['init']):
                            if m['k'] == 'DeclRefExpr' and m.get('dk') in ('Function', 'CXXMethod') and m.get('d') in prog.functions:
                                stack.append(m['d'])
        nchk = 0
        for x in reach:
            fn = prog.functions[x]
            # calls inside try blocks
            guarded = {}
            for t in walk(fn['body']):
                if t['k'] == 'CXXTryStmt':
                    for n in walk(t['body']):
                        guarded.setdefault(n['_id'], []).extend(t.get('catches') or ['...'])
            for n in walk(fn['body']):
                if n['k'] == 'CallExpr':
                    q = n['callee'].get('q')
                    if q in THROWING:
                        nargs = THROWING[q]
                        if nargs is not None and len(n.get('args', [])) != nargs:
                            continue        # the error_code overload does not throw
                        nchk += 1
                        hs = guarded.get(n['_id'])
                        throws = THROWS.get(q, FS_ERR)
                        loose = [e for e in throws if hs is None or not any(caught_by(e, h) for h in hs)]
                        ok = not loose
                        rec.ob('R17.f', 'R17.f@%s::throwing-call-guarded' % fkey(fn), ok, nloc(n),
                               '%s throws %s: %s' % (q, ', '.join(throws), 'every one is caught by the enclosing try (%s)' % ', '.join(hs) if ok else
                                                    ('NOT inside a try block' if hs is None else '%s is not caught by the handlers (%s) and ends the process' % (', '.join(loose), ', '.join(hs)))))
        rec.count('R17.f throwing calls', nchk, 1)

    # ------------------------------------------------------------------ parser state reset (C15)
    def reset_state(self):
        prog, rec = self.prog, self.rec
        f = self.entry
        # what runs before the option loop: in each function of the chain from the entry down, the statements before the call of the
        # next one; in the last, the statements before its first loop
        prefix = []
        chain = getattr(self, 'entry_chain', [f])
        for i_, g_ in enumerate(chain):
            body_ = g_['body'].get('c', [])
            if i_ + 1 < len(chain):
                nxt = chain[i_ + 1]['id']
                cut = next((j for j, s_ in enumerate(body_) if any(n['k'] in ('CallExpr', 'CXXMemberCallExpr') and (n.get('callee') or {}).get('m') == nxt for n in walk(s_))), len(body_))
            else:
                cut = next((j for j, s_ in enumerate(body_) if s_['k'] in ('WhileStmt', 'ForStmt', 'DoStmt')), len(body_))
            prefix += body_[:cut]
        # getopt keeps two cursors: optind and (glibc) its position inside a cluster of short options.  A parse that is abandoned inside
        # a cluster ("-edn" rejected at d) leaves the second one behind; glibc clears it only on a full re-initialisation, which
        # is requested by optind = 0 (optind = 1 restarts the argument index only).
        # statements of same-file helpers called from the prefix count as well (one level)
        extra_ = []
        for s_ in prefix:
            for n in walk(s_):
                if n['k'] == 'CallExpr' and (n.get('callee') or {}).get('m') in prog.functions:
                    h_ = prog.functions[n['callee']['m']]
                    if h_.get('file') == f['file'] and h_.get('body') is not None and h_['id'] not in {c_['id'] for c_ in chain}:
                        extra_ += h_['body'].get('c', [])
        prefix = prefix + extra_
        assigns = [n for s in prefix for n in walk(s) if n['k'] == 'BinaryOperator' and n['op'] == '=' and strip(n['lhs']).get('d') == 'G:optind']
        vals = [strip(n['rhs']).get('cv', n['rhs'].get('cv')) for n in assigns]
        full = bool(assigns) and vals[-1] == 0
        rec.ob('R15.c', 'R15.c@%s::getopt-cursor-reset' % fkey(f), full, '%s:%s' % (f['file'], f['line']),
               'before the option loop of every parse optind is %s' % (
                   'set to 0: the scanner, including its position inside a cluster of short options, is re-initialised' if full else
                   ('set to %s: the argument index restarts, but a position inside a cluster of short options left by an abandoned parse survives' % vals[-1]
                    if assigns else 'NOT assigned')))
        # every other mutable global the parser reads is (re)initialised before the loop
        used = set()
        for fn in [f] + [prog.functions[n['callee']['m']] for n in walk(f['body']) if n['k'] == 'CallExpr' and n['callee'].get('m') in prog.functions and prog.functions[n['callee']['m']]['file'] == f['file']]:
            for n in walk(fn['body']):
                if n['k'] == 'DeclRefExpr' and n.get('glob') and n['d'].startswith('G:'):
                    g = prog.globals.get(n['d'][2:])
                    if g and not g.get('const') and g['file'] == f['file']:
                        used.add(n['d'][2:])
        for gname in sorted(used):
            reset = any(n['k'] == 'DeclRefExpr' and n.get('d') == 'G:' + gname for s in prefix for n in walk(s))
            rec.ob('R15.c', 'R15.c@%s::parser-global-%s-reset' % (fkey(f), gname), reset, '%s:%s' % (f['file'], f['line']),
                   'file-level variable %s used by the parser is %s before the option loop' % (gname, 're-initialised' if reset else 'NOT re-initialised'))
