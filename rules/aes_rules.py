"""C09: tables from first principles (tier 1) and term conformance of the key schedule and of the single-block
encrypt / decrypt functions with FIPS-197 for free key bytes, free round keys and free block bytes (tier 2)."""
import os
import sys
from wai import interp, models
from wai.terminterp import TermInterp
from wai.terms import TS, compare_terms
from wai.facts import AnalysisBroken, walk, strip, loc as nloc
from wai.values import *

sys.path.insert(0, os.path.dirname(os.path.dirname(os.path.abspath(__file__))))
from spec import aes as spec   # noqa: E402


def fkey(fn):
    return '%s::%s' % (fn['file'], fn['q'])


class TermAlg:
    def __init__(self, ts):
        self.ts = ts

    def xor(self, xs):
        return self.ts.xor(xs)

    def tab(self, t, x):
        return self.ts.lookup(list(t), x)

    def const(self, c):
        return self.ts.k(c)


class AesRules:
    def __init__(self, prog, rec):
        self.prog, self.rec = prog, rec
        base = [r for r in prog.records.values() if any(m['n'] == 'runaes_128bit' and m.get('pure') for m in r['methods'])]
        if len(base) != 1:
            raise AnalysisBroken('block cipher base class not found')
        self.base = base[0]
        subs = [prog.records[s] for s in prog.all_subclasses(self.base['q']) if s in prog.records]
        self.enc = self.dec = None
        for s in subs:
            f = next((prog.functions[m['id']] for m in s['methods'] if m['n'] == 'runaes_128bit' and m['id'] in prog.functions), None)
            if f is None:
                continue
            if 'enc' in s['q'].lower():
                self.enc = (s, f)
            elif 'dec' in s['q'].lower():
                self.dec = (s, f)
        if not self.enc or not self.dec:
            raise AnalysisBroken('encrypting / decrypting block classes not found')
        # key schedule: the member class of the base whose constructor takes the key; its round keys are an array of 11 states
        # inside the object or a pointer to states it allocates
        T = prog.type
        kh = []
        for fld in self.base['fields']:
            ft = T(fld['t'])
            if ft.get('k') == 'rec' and ft.get('rec') in prog.records:
                r = prog.records[ft['rec']]
                ctor = [f for f in prog.functions.values() if f.get('ctor') and f.get('rec') == r['q'] and len(f['params']) == 1 and T(f['params'][0]['t']).get('k') == 'ptr']
                rkf = [f for f in r['fields'] if (T(f['t']).get('k') == 'array' and T(f['t']).get('n') == 11)
                       or (T(f['t']).get('k') == 'ptr' and T(T(f['t'])['to']).get('k') == 'rec')]
                if len(ctor) == 1 and len(rkf) == 1:
                    kh.append((r, ctor[0], rkf[0], fld))
        if len(kh) != 1:
            raise AnalysisBroken('key schedule class not found')
        self.kh, self.kh_ctor, rkf, member = kh[0]
        self.rk_field = rkf['d'][2:]
        self.rk_heap = T(rkf['t']).get('k') == 'ptr'
        self.key_member = member['d'][2:]

    RKARR = ('ext', 'roundkeys')

    def rk_loc(self, s, obj, prefix, r, k):
        """memory key of byte k of round key r of the key-schedule object at (obj, prefix)"""
        if not self.rk_heap:
            return (obj, prefix + (self.rk_field, r, '$b', k))
        p = s.mem.get((obj, prefix + (self.rk_field,)))
        if p is None or p[0] != 'p' or not p[2] or not isinstance(p[2][-1], int):
            return None
        return (p[1], p[2][:-1] + (p[2][-1] + r, '$b', k))

    def rk_install(self, st, obj, prefix):
        if self.rk_heap:
            st.mem[(obj, prefix + (self.rk_field,))] = P(self.RKARR, (0,))

    # ------------------------------------------------------------------ tier 1: tables
    def tables(self):
        prog, rec = self.prog, self.rec
        g = prog.globals

        def tab(name):
            x = g.get(name)
            return x['value'] if x and isinstance(x.get('value'), list) else None
        sb, rsb, lg, alg, rc = tab('s_box'), tab('rs_box'), tab('Logtable'), tab('Alogtable'), tab('RC')
        where = (g.get('s_box') or {}).get('file', 'tab.h')
        ok = sb is not None and tuple(sb) == spec.SBOX
        rec.ob('R09.a', 'R09.a@s_box', ok, where, 'S-box = affine(inverse in GF(2^8)/0x11B): %s' % ('all 256 entries' if ok else 'differs at %s' % [i for i in range(256) if not sb or sb[i] != spec.SBOX[i]][:4]))
        ok = rsb is not None and tuple(rsb) == spec.INV_SBOX
        rec.ob('R09.a', 'R09.a@rs_box', ok, where, 'inverse S-box is the inverse permutation of the S-box: %s' % ('yes' if ok else 'NO'))
        ok = lg is not None and len(lg) == 256 and all(lg[v] == spec.LOG[v] for v in range(1, 256))
        rec.ob('R09.a', 'R09.a@Logtable', ok, where, 'Logtable[v] = discrete log base 3 for v=1..255: %s' % ('yes' if ok else 'NO'))
        ok = alg is not None and len(alg) >= 510 and all(alg[i] == spec.ALOG[i % 255] for i in range(len(alg)) if i < 510)
        rec.ob('R09.a', 'R09.a@Alogtable', ok, where, 'Alogtable[i] = 3^i for i=0..509 (doubled range so that log sums need no reduction; %d entries): %s' % (len(alg or []), 'yes' if ok else 'NO'))
        ok = rc is not None and len(rc) >= 11 and all(rc[i] == spec.RCON[i] for i in range(1, 11))
        rec.ob('R09.a', 'R09.a@RC', ok, where, 'RC[i] = 2^(i-1) in GF(2^8) for i=1..10: %s' % ('yes' if ok else 'NO'))

    # ------------------------------------------------------------------ tier 2
    def cells_of_state(self, I, st, obj, prefix):
        """16 byte values of a state_t stored at (obj, prefix): indexed by byte offset."""
        out = []
        for k in range(16):
            out.append(st.mem.get((obj, prefix + ('$b', k)), None))
        return out

    def key_schedule(self):
        prog, rec = self.prog, self.rec
        ts = TS()
        I = TermInterp(prog, ts, models=dict(models.STD_MODELS))
        st = interp.State()
        KEY = ('ext', 'key')
        KH = ('ext', 'ks')
        kb = [ts.v('k%d' % i) for i in range(16)]
        for i in range(16):
            st.mem[(KEY, (i,))] = ('tb', kb[i])
        f = self.kh_ctor
        res = I.run(f, st, this=P(KH, ()), args=[P(KEY, (0,))])
        rec.saw(I)
        where = '%s:%s' % (f['file'], f['line'])
        if I.fail or I.unmodelled or len(res) != 1:
            rec.ob('R09.k', 'R09.k@%s::key-schedule' % fkey(f), None, where, 'term evaluation incomplete: %s %s (%d paths)' % (I.fail[:2], I.unmodelled[:2], len(res)))
            return
        s = res[0][0]
        w = spec.key_expansion(TermAlg(ts), kb)
        bad = []
        n = 0
        for r in range(11):
            cells = [s.mem.get(self.rk_loc(s, KH, (), r, k)) if self.rk_loc(s, KH, (), r, k) else None for k in range(16)]
            for i in range(4):
                for j in range(4):
                    n += 1
                    got = cells[4 * i + j]
                    gid = I.tid(got) if got is not None else None
                    want = w[4 * r + j][i]
                    if gid != want:
                        v = compare_terms(ts, gid, want) if gid is not None else 'missing'
                        bad.append((r, i, j, v if v in ('undecided', 'missing') else 'differs at %s' % (v[1],)))
        und = [b for b in bad if b[3] in ('undecided', 'missing')]
        ok = not bad
        rec.ob('R09.k', 'R09.k@%s::key-schedule' % fkey(f), (None if bad and len(und) == len(bad) else ok), where,
               'round keys 0..10 as terms over 16 free key bytes equal FIPS-197 KeyExpansion (176 bytes, state cell (row i, col j) of round r = w[4r+j] byte i): %s' % (
                   'all equal' if ok else 'NO: %d byte(s), first round %d row %d col %d: %s' % (len(bad), *bad[0])))
        rec.extra.setdefault('tier2', {})['key_schedule'] = {'bytes_compared': n, 'term_nodes': len(ts.nodes), 'oob': ts.oob[:3]}
        if ts.oob:
            rec.ob('R09.t', 'R09.t@%s::table-index-in-bounds' % fkey(f), False, where, 'table subscript may leave its table: %s' % (ts.oob[:3],))

    def block(self, which):
        prog, rec = self.prog, self.rec
        sub, f = self.enc if which == 'enc' else self.dec
        ts = TS()
        I = TermInterp(prog, ts, models=dict(models.STD_MODELS))
        st = interp.State()
        OBJ = ('ext', 'cipher')
        BLK = ('ext', 'block')
        rk = [[ts.v('rk%d_%d' % (r, k)) for k in range(16)] for r in range(11)]
        self.rk_install(st, OBJ, (self.key_member,))
        for r in range(11):
            for k in range(16):
                st.mem[self.rk_loc(st, OBJ, (self.key_member,), r, k)] = ('tb', rk[r][k])
        bb = [ts.v('b%d' % i) for i in range(16)]
        for i in range(16):
            st.mem[(BLK, (i,))] = ('tb', bb[i])
        res = I.run(f, st, this=P(OBJ, ()), args=[P(BLK, (0,))])
        rec.saw(I)
        where = '%s:%s' % (f['file'], f['line'])
        key = 'R09.%s@%s::%s' % ('e' if which == 'enc' else 'd', fkey(f), 'fips197-cipher' if which == 'enc' else 'fips197-invcipher')
        if I.fail or I.unmodelled or not res or len(res) > 8:
            rec.ob('R09.' + ('e' if which == 'enc' else 'd'), key, None, where, 'term evaluation incomplete: %s %s (%d paths)' % (I.fail[:2], I.unmodelled[:2], len(res)))
            return
        # FIPS words from the round-key state cells: w[4r+j] byte i = cell (i, j) = offset 4i+j
        w = [[rk[r][4 * i + j] for i in range(4)] for r in range(11) for j in range(4)]
        A = TermAlg(ts)
        want = spec.cipher(A, bb, w) if which == 'enc' else spec.inv_cipher(A, bb, w)
        bad = []
        # one path, or several when the code tests something the analysis leaves open (the alignment of the block pointer, say):
        # the claim is for every such path
        for s, _ in res:
            for i in range(16):
                got = s.mem.get((BLK, (i,)))
                gid = I.tid(got) if got is not None else None
                if gid != want[i]:
                    v = compare_terms(ts, gid, want[i]) if gid is not None else 'missing'
                    pth = ' on the path %s' % [str(x) for x in s.trace[-2:]] if len(res) > 1 else ''
                    bad.append((i, (v if v in ('undecided', 'missing') else 'differs, e.g. for %s: code %02x, FIPS-197 %02x' % (v[1], v[2] & 0xff, v[3] & 0xff)) + pth))
        und = [b for b in bad if b[1].startswith(('undecided', 'missing'))]
        ok = not bad
        rec.ob('R09.' + ('e' if which == 'enc' else 'd'), key, (None if bad and len(und) == len(bad) else ok), where,
               '%s: 16 output bytes as terms over 16 free block bytes and 176 free round-key bytes equal FIPS-197 %s%s: %s' % (
                   sub['q'], 'Cipher (5.1)' if which == 'enc' else 'InvCipher (5.3)', ' on each of %d paths' % len(res) if len(res) > 1 else '',
                   'all equal' if ok else 'NO: %d byte(s), first byte %d: %s' % (len(bad), *bad[0])))
        rec.extra.setdefault('tier2', {})[which] = {'term_nodes': len(ts.nodes), 'root_dag_size': ts.size(want[0]), 'oob': ts.oob[:3]}
        if ts.oob:
            rec.ob('R09.t', 'R09.t@%s::table-index-in-bounds' % fkey(f), False, where, 'table subscript may leave its table: %s' % (ts.oob[:3],))
        else:
            rec.ob('R09.t', 'R09.t@%s::table-index-in-bounds' % fkey(f), True, where, 'every table subscript reached through the log/antilog products stays inside its table for all byte values')
        # the object keeps no state between blocks besides the round keys: every scratch cell read was written first (checked by
        # evaluation from an uninitialised scratch state: an uninitialised read would have produced a non-term value)

    def stateless(self, which):
        """R09.m: the block transform is a function of (round keys, block): a member of the cipher object that the transform itself
        writes (scratch, caches) is never read in a call before that call has written it - otherwise what an earlier call left there
        decides the result."""
        prog, rec = self.prog, self.rec
        sub, f = self.enc if which == 'enc' else self.dec
        OBJ = ('ext', 'cipher')
        BLK = ('ext', 'block')
        km = self.key_member
        first_read, written, order = {}, set(), [0]

        def fld(loc):
            if loc is None or loc[0] != OBJ or not loc[1] or not isinstance(loc[1][0], str) or loc[1][0] == km:
                return None
            return loc[1][0]

        def ptr_fld(p):
            return fld((p[1], p[2])) if p is not None and p[0] == 'p' else None

        class Lst:
            def rd(self, f_, node):
                if f_ is not None and f_ not in written and f_ not in first_read:
                    first_read[f_] = nloc(node) if isinstance(node, dict) else str(node)

            def on_load(self, I, st, loc, val, node):
                self.rd(fld(loc), node)

            def on_store(self, I, st, loc, val, node):
                f_ = fld(loc)
                if f_ is not None:
                    written.add(f_)
                    allw.add(f_)

            def on_memcpy(self, I, st, node, dst, src, size):
                self.rd(ptr_fld(src), node)
                f_ = ptr_fld(dst)
                if f_ is not None:
                    written.add(f_)
                    allw.add(f_)

            def on_memset(self, I, st, node, dst, val, size):
                f_ = ptr_fld(dst)
                if f_ is not None:
                    written.add(f_)
                    allw.add(f_)

            def on_memcmp(self, I, st, node, args):
                for a in args[:2]:
                    self.rd(ptr_fld(a), node)

            def on_enter(self, I, st, fn=None, **kw):
                if fn is not None and fn.get('id') == f.get('id'):
                    written.clear()
        allw = set()
        I = interp.Interp(prog, listeners=[Lst()], models=dict(models.STD_MODELS))
        I.join_conditionals = True
        I.concrete_loops = True
        st = interp.State()
        self.rk_install(st, OBJ, (km,))
        res = I.run(f, st, this=P(OBJ, ()), args=[P(BLK, (0,))])
        rec.saw(I)
        where = '%s:%s' % (f['file'], f['line'])
        bad = sorted((f_, w) for f_, w in first_read.items() if f_ in allw)
        for f_, w in bad:
            # a cache that is kept consistent would be harmless, and whether it is is not decided here: the claim "equals FIPS-197 for
            # every call" is then NOT established (undecided), which is never a pass
            rec.ob('R09.m', 'R09.m@%s::reads-what-an-earlier-call-left::%s' % (fkey(f), f_.split('::')[-1]), None, w,
                   '%s: member %s is read before this call has written it, and the transform writes it elsewhere: the result may depend on the blocks processed before' % (sub['q'], f_))
        rec.ob('R09.m', 'R09.m@%s::function-of-key-and-block' % fkey(f), True if not bad else None, where,
               '%s: members written by the transform: %s; none of them is read in a call before that call wrote it (%d paths)' % (
                   sub['q'], sorted(x.split('::')[-1] for x in allw), len(res)))

    def ownership(self):
        """R09.o: a cipher object stays the function of (key, block) when it is copied: no class in its object graph releases, in a
        user-provided destructor, storage that its implicitly generated copy operations would share with the copy."""
        prog, rec = self.prog, self.rec
        T = prog.type
        seen, todo = {}, [self.base['q'], self.enc[0]['q'], self.dec[0]['q']]
        while todo:
            q = todo.pop()
            if q in seen or q not in prog.records:
                continue
            r = prog.records[q]
            seen[q] = r
            for f in r['fields']:
                ft = T(f['t'])
                if ft.get('k') == 'array':
                    ft = T(ft.get('of') or ft.get('elem') or ft.get('to') or f['t']) if (ft.get('of') or ft.get('elem')) else ft
                if ft.get('k') == 'rec':
                    todo.append(ft['rec'])
            for b in r.get('bases', []):
                todo.append(b['q'])
        bad = []
        for q, r in sorted(seen.items()):
            if not r.get('udtor'):
                continue
            dt = next((f for f in prog.functions.values() if f.get('rec') == q and f['name'].startswith('~')), None)
            owned = set()
            if dt is not None:
                for n in walk(dt['body']):
                    if n['k'] == 'CXXDeleteExpr' or (n['k'] == 'CallExpr' and n.get('callee', {}).get('q') == 'free'):
                        for m in walk(n):
                            if m['k'] == 'MemberExpr' and any(m.get('d', '')[2:] == f['d'][2:] for f in r['fields']):
                                owned.add(m['d'][2:])
            if owned and not (r.get('ucopy') and r.get('uassign')):
                bad.append((q, sorted(owned), '%s:%s' % (dt['file'], dt['line'])))
        for q, owned, w in bad:
            rec.ob('R09.o', 'R09.o@%s::copy-shares-owned-storage' % q, False, w,
                   '%s releases %s in its destructor but its copy constructor / assignment are the implicit member-wise ones: a copied cipher object and '
                   'its original share (and one of them frees or wipes) the same round keys' % (q, owned))
        rec.ob('R09.o', 'R09.o@%s::object-graph-copy-safe' % self.base['q'], not bad, self.base['file'],
               'classes in the cipher object graph (%s): %s' % (', '.join(sorted(seen)), 'none releases storage its implicit copies would share' if not bad else 'NOT copy-safe'))

    def key_load(self):
        """The key schedule is computed from exactly the 16 bytes given, by the constructor that every cipher object runs."""
        prog, rec = self.prog, self.rec
        for sub, f in (self.enc, self.dec):
            ctor = next((c for c in prog.functions.values() if c.get('ctor') and c.get('rec') == sub['q']), None)
            ok = False
            if ctor is not None:
                ts = TS()
                I = TermInterp(prog, ts, models=dict(models.STD_MODELS))
                st = interp.State()
                KEY = ('ext', 'key')
                for i in range(16):
                    st.mem[(KEY, (i,))] = ('tb', ts.v('k%d' % i))
                OBJ = ('ext', 'cipher')
                res = I.run(ctor, st, this=P(OBJ, ()), args=[P(KEY, (0,))])
                rec.saw(I)
                if len(res) == 1 and not I.fail:
                    s = res[0][0]
                    cells = [s.mem.get(self.rk_loc(s, OBJ, (self.key_member,), 0, k)) if self.rk_loc(s, OBJ, (self.key_member,), 0, k) else None for k in range(16)]
                    ok = all(c == ('tb', ts.v('k%d' % (4 * (k % 4) + k // 4))) for k, c in enumerate(cells))
            rec.ob('R09.k', 'R09.k@%s::object-key-is-argument' % sub['q'], ok, sub['file'],
                   '%s(key): round key 0 of the constructed object is exactly the 16 key bytes given (column-major), on the single path of its constructor' % sub['q'])
