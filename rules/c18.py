"""C18 Each cipher stream in a file starts from its own seed-dependent IV."""
from .common import combined
LEVEL = 'other'
RULES = ('R18.a', 'R18.c', 'R02.c', 'R07.d', 'R07.e', 'R07.t', 'R10.c', 'R10.s', 'R10.i', 'R18.s', 'R18.w', 'R18.m')


def run(prog, rec, tier):
    # the seed handed to the kernel is only as random as the generator behind it
    from . import cli_rules
    C_ = cli_rules.CliRules(prog, rec)
    C_.parser()
    C_.interactive()
    C_.exit_mapping()
    combined(prog, rec, tier, RULES, driver=('layout', 'reader'), hash=('drivers', 'finaliser'), compress=True, modes=('counter', 'steps'),
             explanation='For every T: the IV pointer that reaches the constructor of stream k must be slot k of the same array that is '
             'written to / read from the header; the array is filled by the chain iv[0]=H(seed over its full strlen), iv[i]=H(iv[i-1]).')
