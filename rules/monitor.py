"""S-LOCK monitor discipline on the token class (M2 wait-in-loop + leave sets, M3 notify before release,
M4 notify_one, M5 leave sets reachable) and the spawn/join pairing R04.b / index mapping R02.d."""
from wai import interp, models
from wai.facts import AnalysisBroken, walk, strip, loc as nloc
from wai.values import *
from .pipeline import Anchors, fkey

MON = ('ext', 'monitor')


def ancestors_of(root, target_id):
    """Chain of AST nodes from root down to the node with _id == target_id."""
    path = []

    def rec(n):
        if isinstance(n, dict):
            if n.get('_id') == target_id:
                path.append(n)
                return True
            for k, v in n.items():
                if k.startswith('_'):
                    continue
                if isinstance(v, (dict, list)) and rec(v):
                    if 'k' in n:
                        path.append(n)
                    return True
        elif isinstance(n, list):
            for x in n:
                if rec(x):
                    return True
        return False
    rec(root)
    return list(reversed(path))


class MonListener:
    def __init__(self, A, rec, leave, fn, ctor):
        self.A, self.rec, self.leave, self.fn, self.ctor = A, rec, leave, fn, ctor
        self.waits = []
        self.writes = []
        self.notifies = []

    def lockloc(self):
        return (MON, (self.A.mutex,))

    def on_cv_wait(self, I, st, node, cv, mutex, held, has_pred):
        self.waits.append((node, cv, mutex, frozenset(held), has_pred))

    def on_prestore(self, I, st, loc, val, node):
        if loc[0] == MON and loc[1] == (self.A.state,):
            vs = setof(val)
            vs = set(vs) if vs is not None else set(self.A.ALL)
            self.writes.append((node, vs, self.lockloc() in models.lockset(st)))
            if self.ctor:
                return
            need = frozenset(cv for cv, lv in self.leave.items() if lv & vs)
            st.comps['pending'] = st.comps.get('pending', frozenset()) | need
            st.comps['pending_from'] = nloc(node)

    def on_cv_notify(self, I, st, node, cv, all, held):
        self.notifies.append((node, cv, all))
        if cv[0] == MON and len(cv[1]) == 1:
            pend = st.comps.get('pending', frozenset())
            if not all:
                # M4: notify_one wakes a single waiter: accepted only when at most one thread can wait on that
                # condition variable of that object (one wait site; the role/index argument is S-OWN + R02.d)
                sites = sum(1 for c in self.A.wait_sites if c == cv[1][0])
                self.rec.ob('M4', 'M4@%s::notify_one-%s' % (fkey(self.fn), cv[1][0].split('::')[-1]), sites <= 1, nloc(node),
                            'notify_one on %s which has %d wait site(s)' % (cv[1][0], sites))
            st.comps['pending'] = pend - {cv[1][0]}

    def on_unlock(self, I, st, node, mutex):
        if mutex != self.lockloc():
            return
        pend = st.comps.get('pending', frozenset())
        self.rec.ob('M3', 'M3@%s::notify-before-release' % fkey(self.fn), not pend, nloc(node),
                    ('mutex released with every condition variable whose waiters could leave on the written value notified'
                     if not pend else
                     'token written at %s but mutex released without notify_all on %s: a waiter can miss the change' % (
                         st.comps.get('pending_from'), sorted(pend))),
                    path=[str(x) for x in st.trace[-6:]])
        st.comps['pending'] = frozenset()


def leave_set(A, prog, rec, fn, wait_node):
    """M2: the wait must sit in a loop re-testing the token (or use the predicate form); returns the leave set."""
    chain = ancestors_of(fn['body'], wait_node['_id'])
    loops = [n for n in chain if n['k'] in ('WhileStmt', 'DoStmt', 'ForStmt')]
    I = interp.Interp(prog, models=dict(models.STD_MODELS))
    I._decl_is_ref = {}
    I.index_ref_decls()
    fr = I.start_frame(fn)
    fr.this = (('L', '$this', ()), ())

    def truth_under(cond_node, v):
        st = interp.State()
        st.mem[fr.this] = P(MON, ())
        st.mem[(MON, (A.state,))] = C(v)
        I.frames.append(fr)
        try:
            res = I.cond(cond_node, st, fr)
        finally:
            I.frames.pop()
        ts = {b for _, b in res}
        return ts

    if len(wait_node.get('args', [])) >= 2:
        # predicate overload: leave set = values for which the predicate returns true
        lam = next((x for x in walk(wait_node['args'][1]) if x.get('k') == 'LambdaExpr'), {})
        op = prog.functions.get(lam.get('op')) if lam.get('k') == 'LambdaExpr' else None
        if op is None:
            return None, 'predicate form with an unrecognised predicate'
        leave = set()
        for v in A.ALL:
            st = interp.State()
            st.mem[(MON, (A.state,))] = C(v)
            I2 = interp.Interp(prog, models=dict(models.STD_MODELS))
            out = I2.run(op, st, this=P(MON, ()))      # inside the lambda, `this` is the enclosing monitor object
            # captured this: closure fields are unknown, the predicate reads the monitor through it: approximate
            for s2, rv in out:
                t = truth(rv, s2.sym)
                if t is None:
                    return None, 'predicate value undecided for %s' % A.ename[v]
                if t:
                    leave.add(v)
        return leave, 'predicate form'
    if not loops:
        return None, 'no enclosing loop'
    loop = loops[-1]
    cond = loop.get('cond')
    if cond is None:
        return None, 'enclosing loop has no condition'
    reads_state = any(n.get('k') == 'MemberExpr' and n.get('d') == 'F:' + A.state for n in walk(cond))
    if not reads_state:
        # through a helper method?
        for c in walk(cond):
            if c.get('k') == 'CXXMemberCallExpr' and c['callee'].get('rec') == A.Mq:
                f2 = prog.functions.get(c['callee'].get('m'))
                if f2 and any(n.get('k') == 'MemberExpr' and n.get('d') == 'F:' + A.state for n in walk(f2['body'])):
                    reads_state = True
    if not reads_state:
        return None, 'loop condition does not re-read the token'
    leave = set()
    for v in A.ALL:
        ts = truth_under(cond, v)
        if len(ts) != 1:
            return None, 'loop condition undecided for %s' % A.ename[v]
        if ts == {False}:
            leave.add(v)
    return leave, 'while-loop'


def run_monitor(prog, rec, A=None):
    A = A or Anchors(prog)
    methods = [prog.functions[m['id']] for m in A.M['methods'] if m['id'] in prog.functions]
    ctors = [f for f in prog.functions.values() if f.get('ctor') and f.get('rec') == A.Mq]
    # --- M2: wait sites and their leave sets
    leave = {}
    A.wait_sites = []
    nwait = 0
    for f in methods:
        for n in walk(f['body']):
            if n['k'] == 'CXXMemberCallExpr' and n['callee'].get('q') == 'std::condition_variable::wait':
                nwait += 1
                obj = strip(n['obj'])
                cvf = obj.get('d', '')[2:] if obj.get('k') == 'MemberExpr' else None
                ls, how = leave_set(A, prog, rec, f, n)
                ok = ls is not None and cvf in A.cvs
                rec.ob('M2', 'M2@%s::wait-%s' % (fkey(f), (cvf or '?').split('::')[-1]), ok, nloc(n),
                       'cv.wait on %s: %s; leaves on %s' % (cvf, how, A.names(ls) if ls is not None else 'n/a'))
                if ok:
                    leave[cvf] = leave.get(cvf, set()) | ls
                    A.wait_sites.append(cvf)
    rec.count('M2 wait sites', nwait, 2)
    # waits anywhere else on the monitor's condition variables are not expected
    for f in prog.functions.values():
        if f.get('rec') == A.Mq or f['q'].startswith(A.Mq + '::'):
            continue
        for n in walk(f['body']):
            if n['k'] == 'CXXMemberCallExpr' and n['callee'].get('q') == 'std::condition_variable::wait':
                rec.ob('M2', 'M2@%s::wait-outside-monitor' % fkey(f), False, nloc(n), 'condition wait outside the monitor class')
    # --- M1/M3/M4 per method, lock state from the code itself
    written = set()
    nwrites = 0
    for f in methods + [c for c in ctors if c not in methods]:
        ml = MonListener(A, rec, {cv: frozenset(v) for cv, v in leave.items()}, f, bool(f.get('ctor')))
        I = interp.Interp(prog, listeners=[ml], models=dict(models.STD_MODELS))
        st = interp.State()
        st.comps['lockset'] = frozenset()
        st.comps['pending'] = frozenset()
        args = None
        res = I.run(f, st, this=P(MON, ()), args=args)
        rec.saw(I)
        for node, cv, mutex, held, has_pred in ml.waits:
            ok = mutex == (MON, (A.mutex,)) and mutex in held
            rec.ob('M2', 'M2@%s::wait-holds-own-mutex' % fkey(f), ok, nloc(node),
                   'wait releases/re-acquires %s; held: %s' % (mutex, sorted(map(str, held))))
        for node, vs, held in ml.writes:
            nwrites += 1
            written |= vs
            if not f.get('ctor'):
                rec.ob('M1', 'M1@%s::write-%s' % (fkey(f), A.state.split('::')[-1]), held, nloc(node),
                       'write of %s with the object\'s mutex %s' % (A.state, 'held' if held else 'NOT held'))
        for s2, _ in res:
            pend = s2.comps.get('pending', frozenset())
            if pend and not f.get('ctor'):
                rec.ob('M3', 'M3@%s::notify-before-return' % fkey(f), False, '%s:%s' % (f['file'], f['line']),
                       'returns with un-notified token change for %s' % sorted(pend))
            if models.lockset(s2):
                rec.ob('M1', 'M1@%s::returns-holding-lock' % fkey(f), False, '%s:%s' % (f['file'], f['line']),
                       'returns with %s still held' % sorted(map(str, models.lockset(s2))))
        for what, where in I.unmodelled:
            rec.broke('unmodelled construct in monitor analysis: %s at %s' % (what, where))
    rec.count('M1 guarded writes', nwrites, 3)
    # M4 summary (the per-site obligations exist only where notify_one is used)
    rec.ob('M4', 'M4@%s::single-waiter-for-notify_one' % A.Mq, not any(o.rule == 'M4' and o.ok is False for o in rec.obls), A.M['file'],
           'every notify_one addresses a condition variable with at most one wait site (%d notify_one site(s))' % sum(1 for o in rec.obls if o.rule == 'M4'))
    # --- M5: every wait can be left by a value somebody writes
    for cv, ls in leave.items():
        rec.ob('M5', 'M5@%s::leave-set-%s-reachable' % (A.Mq, cv.split('::')[-1]), bool(ls & written), A.M['file'],
               'waiters on %s leave on %s; values written to the token: %s' % (cv, A.names(ls), A.names(written)))
    # writes to the token from outside the monitor class break encapsulation of M1
    for f in prog.functions.values():
        if f.get('rec') == A.Mq or f['q'].startswith(A.Mq + '::'):
            continue        # lambdas written inside the monitor's methods are part of the monitor
        for n in walk(f['body']):
            if n.get('k') == 'MemberExpr' and n.get('d') == 'F:' + A.state:
                rec.ob('M1', 'M1@%s::token-access-outside-monitor' % fkey(f), False, nloc(n),
                       'token field accessed outside the monitor class')
    return A, leave


# ------------------------------------------------------------------------------------------------
def run_spawn_join(prog, rec, A):
    """R04.b JOIN PAIRING and R02.d INDEX MAPPING, exhaustively for every thread count 1..THREAD_MAX."""
    spawner = A.spawner
    srec = spawner.get('rec')
    tmax = None
    for g in prog.globals.values():
        if g['q'].startswith(srec + '::') and g.get('const') and isinstance(g.get('value'), int) and 'MAX' in g['q'].upper():
            tmax = g['value']
    if tmax is None or not (1 <= tmax <= 64):
        raise AnalysisBroken('thread maximum constant of %s not found' % srec)
    tn_field = None
    for f in prog.records[srec]['fields']:
        t = prog.type(f['t'])
        if t.get('k') == 'int' and t.get('const'):
            tn_field = f['d'][2:]
    if tn_field is None:
        raise AnalysisBroken('thread count field of %s not found' % srec)
    OBJ = ('ext', 'master')
    MODES = ('ext', 'modes')
    total_spawn = 0
    for t in range(1, tmax + 1):
        ev = []

        class L:
            def on_spawn(self, I, st, node, fn, args, argnodes, fr):
                ev.append(('spawn', node, fn, args))

            def on_thread_assign(self, I, st, node, this, fr):
                ev.append(('slot', node, this))

            def on_join(self, I, st, node, this, fr):
                ev.append(('join', node, this))

        def io_model(I, st, fr, n, this, args, an):
            ev.append(('io', n, None))
            return [(st, ('void',))]

        mdl = dict(models.STD_MODELS)
        mdl[A.io['q']] = io_model
        I = interp.Interp(prog, listeners=[L()], models=mdl)
        st = interp.State()
        ctor = [c for c in prog.functions.values() if c.get('ctor') and c.get('rec') == srec and len(c['params']) == 1]
        if len(ctor) == 1:
            r0 = I.run(ctor[0], st, this=P(OBJ, ()), args=[C(t)])
            if not r0:
                raise AnalysisBroken('constructor of %s has no normal path' % srec)
            # the number of workers the master will start is the number of streams the runner was configured with, on every path
            # of its constructor (the header, the IV table and the chunk-to-stream assignment all use that number)
            for s0, _ in r0:
                tv = s0.mem.get((OBJ, (tn_field,)))
                same = tv == C(t)
                rec.ob('R02.d', 'R02.d@%s::worker-count-is-stream-count' % fkey(ctor[0]), same, '%s:%s' % (ctor[0]['file'], ctor[0]['line']),
                       'T=%d: the master is set up to start %s worker(s)' % (t, show(tv) if tv is not None else '?'), path=[str(x) for x in s0.trace[-4:]])
            st = r0[0][0]
            del ev[:]
        st.mem[(OBJ, (tn_field,))] = C(t)
        st.mem[('G:%s::instance' % A.Gq, ())] = P(('ext', 'group'), ())
        for i in range(tmax):
            st.mem[(MODES, (i,))] = P(('ext', 'mode%d' % i), ())
        res = I.run(spawner, st, this=P(OBJ, ()), args=[P(MODES, (0,)), P(('ext', 'printload'), ())])
        rec.saw(I)
        spawned, slots, joined = [], [], []
        order_ok = True
        seen_io = False
        pending_spawn = None
        for e in ev:
            if e[0] == 'spawn':
                if seen_io:
                    order_ok = False
                pending_spawn = e
            elif e[0] == 'slot':
                if pending_spawn is not None:
                    spawned.append((pending_spawn, e[2]))
                    pending_spawn = None
            elif e[0] == 'io':
                seen_io = True
            elif e[0] == 'join':
                if not seen_io:
                    order_ok = False
                joined.append(e[2])
        total_spawn += len(spawned)
        slotset = [s for _, s in spawned]
        ok_pair = (len(res) == 1 and len(spawned) == t and sorted(map(str, slotset)) == sorted(map(str, joined))
                   and len(set(map(str, slotset))) == t and order_ok and seen_io)
        rec.ob('R04.b', 'R04.b@%s::every-thread-joined' % fkey(spawner), ok_pair, '%s:%s' % (spawner['file'], spawner['line']),
               'T=%d: %d threads started into %d distinct slots, %d joined, pipeline call %s between' % (
                   t, len(spawned), len(set(map(str, slotset))), len(joined), 'is' if (seen_io and order_ok) else 'is NOT'))
        ok_map = True
        det = []
        for (sp, slot) in spawned:
            _, node, fn, args = sp
            idx = slot[2][-1] if slot[0] == 'p' and slot[2] else None
            a0 = args[0] if args else None
            a1 = args[1] if len(args) > 1 else None
            good = (fn == ('fn', A.worker['id']) and a0 == C(idx) if isinstance(idx, int) else False) and a1 == P(('ext', 'mode%d' % idx), ())
            ok_map = ok_map and good
            if not good:
                det.append('slot %s started with id=%s stream=%s' % (idx, show(a0) if a0 else '?', show(a1) if a1 else '?'))
        rec.ob('R02.d', 'R02.d@%s::thread-i-gets-id-i-and-stream-i' % fkey(spawner), ok_map and len(spawned) == t,
               '%s:%s' % (spawner['file'], spawner['line']),
               'T=%d: every thread slot i is started as worker(i, *mode[i])%s' % (t, '' if ok_map else ': ' + '; '.join(det)))
        for what, where in I.unmodelled:
            rec.broke('unmodelled construct in spawner analysis: %s at %s' % (what, where))
    rec.count('R04.b spawn events', total_spawn, tmax * (tmax + 1) // 2)
    # the worker passes its own id unchanged to every buffer request
    w = A.worker
    idp = w['params'][0]['id']
    nreq = 0
    for n in walk(w['body']):
        if n['k'] == 'CXXMemberCallExpr' and n['callee'].get('rec') == A.Gq and n.get('args'):
            nreq += 1
            a = strip(n['args'][0])
            rec.ob('R02.d', 'R02.d@%s::requests-own-buffer' % fkey(w), a.get('k') == 'DeclRefExpr' and a.get('d') == idp, nloc(n),
                   'buffer request uses %s' % ('the thread\'s own id' if a.get('d') == idp else 'an expression other than its id parameter'))
    stores = [n for n in walk(w['body']) if n.get('k') in ('BinaryOperator', 'CompoundAssignOperator', 'UnaryOperator')
              and n.get('op') in ('=', '+=', '-=', '++', '--') and strip(n.get('lhs') or n.get('e')).get('d') == idp]
    rec.ob('R02.d', 'R02.d@%s::id-never-modified' % fkey(w), not stores, '%s:%s' % (w['file'], w['line']), 'worker id parameter is %s' % ('never assigned' if not stores else 'assigned'))
    rec.count('R02.d buffer requests', nreq, 1)
