"""C09 Single-block AES-128 equals FIPS-197 for every key/block; decryption inverts it."""
from . import aes_rules
LEVEL = 'proof'
RULES = ('R09.a', 'R09.k', 'R09.e', 'R09.d', 'R09.t', 'R09.o', 'R09.m', 'R09.s', 'R02.d', 'R03.c')


def run(prog, rec, tier):
    A = aes_rules.AesRules(prog, rec)
    A.tables()
    A.key_schedule()
    A.block('enc')
    A.block('dec')
    A.stateless('enc')
    A.stateless('dec')
    A.key_load()
    A.ownership()
    from . import static_rules
    static_rules.scoped_statics(prog, rec, 'R09.s', 'R09.s@kernel/multi_aes/aes::objects-share-no-state', ('kernel/multi_aes/aes',), 'the block / mode code')
    # the block functions work in per-object scratch: the claim holds for an object only while one thread at a time uses it.
    # Each worker gets its own stream object (R02.d, for every T) and two streams share no mutable storage (R03.c).
    from .driver_rules import DriverRules
    from .mode_rules import ModeRules
    mine = [o for o in rec.obls]
    try:
        D = DriverRules(prog, rec, tier)
        D.layout()
        D.reader()
        ModeRules(prog, rec).isolation()
    finally:
        rec.obls = mine + [o for o in rec.obls if o not in mine and o.rule in ('R02.d', 'R03.c')]
        rec.instances = {k: v for k, v in rec.instances.items() if k.startswith(('R09', 'R02.d', 'R03.c'))}
    rec.extra['explanation'] = (
        'Tier 1: the five constant tables equal values derived from first principles (GF(2^8) inverse + affine map, its inverse '
        'permutation, discrete log/antilog base 3 with the doubled antilog range, round constants). Tier 2: the key-schedule '
        'constructor, encryaes::runaes_128bit and decryaes::runaes_128bit are interpreted over hash-consed byte terms (free key bytes; '
        'free block bytes and free round keys) with byte-addressed storage for the state union and the reinterpreting pointer casts; '
        'the resulting 176 + 16 + 16 output terms are identical, as canonical xor-of-table DAGs, to the terms built by a reference '
        'written from the text of FIPS-197 5.1-5.3 (self-checked on the Appendix C vector). Equal canonical terms are equal functions, '
        'so the claim holds for every key and block; decryption inverts encryption because InvCipher inverts Cipher. '
        'An inequality is reported only with a concrete assignment on which the two terms evaluate differently.')
    rec.extra['checker_cmd'] = './check C09'
    rec.extra['trusted_base'] = ['clang 14 front end', 'wfacts extractor', 'wai term interpreter (byte-addressed unions, table/xor canonical form)',
                                 'spec/aes.py written from FIPS-197 (self-test on Appendix C.1)']
    rec.assume('little-endian target (the state union and the u32 stores are interpreted little-endian, as on the build platform)')
