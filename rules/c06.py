"""C06 A wrong key is always rejected and yields no plaintext."""
from .common import combined
LEVEL = 'other'
RULES = ('S-GATE', 'S-CMP', 'R05.e', 'R06.a', 'R06.b', 'R06.c', 'R12.a')


def run(prog, rec, tier):
    combined(prog, rec, tier, RULES, driver=('reader',), hmac=('scmp', 'structure'),
             explanation='Decryption output is control-dependent on verify()==0; the tag compare accepts only when every digest byte '
             'was established equal; all 16 key bytes reach both hash inputs (inner prefix K0^ipad, outer prefix K0^opad, by content); '
             'the cipher streams get the same key object.')
    rec.assume('HMAC is a MAC: a different key gives a different tag')
