"""C06 A wrong key is always rejected and yields no plaintext."""
from .common import combined
LEVEL = 'other'
RULES = ('S-GATE', 'S-CMP', 'R05.e', 'R05.d', 'R06.a', 'R06.b', 'R06.c', 'R12.a', 'R16.a', 'R16.b', 'R16.e', 'R16.t', 'R16.l', 'R07.d', 'R07.e', 'R07.g', 'R07.t', 'R06.k', 'R08.f')


def run(prog, rec, tier):
    # two key texts that denote different keys must reach the kernel as different 16-byte keys: validator and decoder of the key text
    from . import b64_rules
    B = b64_rules.B64Rules(prog, rec)
    B.tables()
    B.locale_fixed()
    B.validator_decoder()
    B.decoder()
    # ... and the text that is decoded must be the one the user gave with the key option
    from . import cli_rules
    cli_rules.CliRules(prog, rec).parser()
    combined(prog, rec, tier, RULES, driver=('reader',), hmac=('scmp', 'structure'), hash=('drivers', 'buffer', 'buffer_sim', 'finaliser', 'factory'), compress=True,
             explanation='Decryption output is control-dependent on verify()==0; the tag compare accepts only when every digest byte '
             'was established equal; all 16 key bytes reach both hash inputs (inner prefix K0^ipad, outer prefix K0^opad, by content); '
             'the cipher streams get the same key object.')
    rec.assume('HMAC is a MAC: a different key gives a different tag')
