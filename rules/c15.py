"""C15 Operations repeated in one process behave as in a fresh process."""
from .common import combined
from . import static_rules, cli_rules
LEVEL = 'other'
RULES = ('R15.k', 'R15.m', 'R15.a', 'R15.b', 'R15.c', 'R15.d', 'R15.f', 'R15.h', 'R14.t', 'R04.c', 'R04.d')


def run(prog, rec, tier):
    try:
        static_rules.run_statics(prog, rec)
        C = cli_rules.CliRules(prog, rec)
        C.reset_state()
        C.parser()
    finally:
        pass
    combined(prog, rec, tier, RULES, driver=('singleton', 'sequence'), pipe=True,
             explanation='Inventory of every mutable object with static storage in the 16 units, one obligation each: the buffer-group singleton '
             'is released on every abstract path of every operation (also failing ones), the live-buffer counter is 0 at every operation exit '
             '(and 0 at pipeline exit, tied to INV), getopt cursor and default-output name are reset at the start of every parse, name tables '
             'and default settings are never written; any other mutable static (global, static member, static local) may exist only if no '
             'operation reads it. Equality of outputs between histories is a consequence, not computed.')
