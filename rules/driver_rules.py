"""Rules over the driver-level access logs (S-LAYOUT, S-GATE, S-FILEFX, R12 sibling agreement, R13 ordering,
R05 authenticated reads, R18 stream IVs, R15 singleton pairing)."""
import re
from wai import interp, models
from wai.facts import AnalysisBroken, walk, strip, loc as nloc
from wai.values import *
from .driver import Driver, DriverListener, accesses, log, fkey, FIN, OUT, KEY, RBUF, RC, BODY


class GateListener:
    """Remembers what the shared verification step returned on this path, and names file-derived scalars."""

    def __init__(self, D, verify_id, cmp_id=None):
        self.D, self.verify_id, self.cmp_id = D, verify_id, cmp_id

    def on_ret(self, I, st, node, q, callee, this, args, val, fr):
        if callee.get('m') == self.verify_id:
            st.comps['verify_ret'] = val
            log(st, 'VERIFYRET', val)
        elif self.cmp_id is not None and callee.get('m') == self.cmp_id:
            log(st, 'TAGCMP', val, show(args[3]) if len(args) > 3 else '?', nloc(node))

    def on_call(self, I, st, node, q, callee, this, args, argnodes, fr):
        # the key that reaches the MAC: its 16 bytes as values (the operation's key bytes are the named unknowns $key0..15)
        fn = I.prog.functions.get(callee.get('m'))
        if fn is None or callee.get('rec') != self.D.mac_rec or fr.fn.get('rec') == self.D.mac_rec:
            return
        for i, p_ in enumerate(fn['params']):
            if p_['n'] == 'key' and i < len(args):
                kp = args[i]
                if kp[0] == 'p' and kp[2] and isinstance(kp[2][-1], int):
                    vals = tuple(show(I.load(st, (kp[1], kp[2][:-1] + (kp[2][-1] + j,)))) for j in range(16))
                else:
                    vals = (show(kp),)
                log(st, 'MACKEY', fn['q'], vals, nloc(node))

    def on_fread(self, I, st, node, root, pos, size, dst, got):
        # a scalar read from the file is one fixed unknown number named by stream and offset (provenance)
        if dst is None or dst[0] != 'p' or size[0] != 'c' or not (1 <= size[1] <= 8):
            return
        l = (dst[1], dst[2])
        if dst[2] and isinstance(dst[2][-1], int):
            # a few bytes read into an array (a local header block): each byte is the file byte at its offset;
            # larger array destinations stay anonymous
            if size[1] <= 4 and pos[0] == 'c':
                full = compare('==', got, size, st.sym) if is_int(got) else None
                for i in range(size[1]):
                    nm = '$file:%s:%d:1' % (root, pos[1] + i)
                    st.sym[nm] = (0, 255)
                    st.mem[(dst[1], dst[2][:-1] + (dst[2][-1] + i,))] = sym(nm)
                    st.comps[('short', nm)] = full is not True
            return
        nm = '$file:%s:%s:%d' % (root, show(pos), size[1])
        # the bytes are read into an object of some type: a signed destination sees the same bytes as a signed number
        signed_dst = False
        if dst[2] and isinstance(dst[2][-1], str):
            for r_ in I.prog.records.values():
                for x_ in r_['fields']:
                    if x_['d'][2:] == dst[2][-1]:
                        t_ = I.prog.type(x_['t'])
                        signed_dst = bool(t_.get('sg')) and t_.get('bits') == 8 * size[1]
        bits_ = 8 * size[1]
        st.sym[nm] = (-(1 << (bits_ - 1)), (1 << (bits_ - 1)) - 1) if signed_dst else (0, (1 << bits_) - 1)
        old = st.mem.get(l)
        full = compare('==', got, size, st.sym) if is_int(got) else None
        st.mem[l] = sym(nm)
        st.comps[('short', nm)] = full is not True


class report_null:
    def ob(self, *a, **k):
        return None

    def count(self, *a, **k):
        pass

    def saw(self, *a, **k):
        pass

    def broke(self, *a, **k):
        pass


def find_verify(D, tagcmp=None):
    """The verification step shared by decrypt and verify: the method of the runner class, reachable from both operations,
    that itself calls the tag-compare function (innermost such method); without a known compare function, the one method
    both operations call directly."""
    prog = D.prog

    def rc_calls(f):
        return {n['callee'].get('m') for n in walk(f['body'])
                if n['k'] == 'CXXMemberCallExpr' and n['callee'].get('rec') == D.RCq}

    def reach(f):
        seen, todo = set(), [f['id']]
        while todo:
            x = todo.pop()
            if x in seen or x not in prog.functions:
                continue
            seen.add(x)
            todo.extend(m for m in rc_calls(prog.functions[x]) if m)
        return seen
    if tagcmp is not None:
        both = reach(D.ops['decrypt']) & reach(D.ops['verify'])
        direct = [prog.functions[x] for x in both
                  if any(n['k'] in ('CXXMemberCallExpr', 'CallExpr') and n.get('callee', {}).get('m') == tagcmp['id'] for n in walk(prog.functions[x]['body']))]
        direct = [f for f in direct if prog.type(f['ret']).get('k') in ('int', 'bool')]
        if len(direct) == 1:
            return direct[0]
    common = rc_calls(D.ops['decrypt']) & rc_calls(D.ops['verify'])
    common = [c for c in common if c in prog.functions and prog.type(prog.functions[c]['ret']).get('k') in ('int', 'bool')]
    if len(common) != 1:
        raise AnalysisBroken('expected one verification step shared by execute_decrypt and execute_verify, found %d' % len(common))
    return prog.functions[common[0]]


def norm(x):
    """Strip call-context parts of object identities so that logs of two operations can be compared."""
    if isinstance(x, tuple):
        if len(x) == 3 and x[0] in ('new', 'L', 'tmp') and isinstance(x[2], tuple):
            return (x[0], x[1] if x[0] != 'L' else str(x[1]).split('#')[0])
        return tuple(norm(y) for y in x)
    if isinstance(x, str):
        import re
        x = re.sub(r"\$got\d+", '$got', x)
        return re.sub(r"\((?:\d+, ?)*\d*\)", '()', x)
    return x


def symbols_in(v):
    out = set()
    if isinstance(v, tuple):
        if v and v[0] == 'l':
            out |= {s for s, _ in v[2]}
        else:
            for x in v:
                out |= symbols_in(x)
    return out


class DriverRules:
    def __init__(self, prog, rec, tier):
        self.prog, self.rec, self.tier = prog, rec, tier
        self.D = Driver(prog, rec)
        from .hmac_rules import HmacRules
        self.tagcmp = HmacRules(prog, report_null()).cmp
        self.verify = find_verify(self.D, self.tagcmp)
        self.D.mac_rec = self.tagcmp.get('rec')
        from .bounds import BoundsListener
        self.bl = BoundsListener(prog, tagger=lambda: getattr(self.D, 'current_op', None))
        self.D.extra_listeners = [GateListener(self.D, self.verify['id'], self.tagcmp['id']), self.bl]
        self.Ts = list(range(1, self.D.tmax + 1)) if tier == 'thorough' else [1, 2, 4, self.D.tmax]
        rec.extra['thread_counts'] = self.Ts
        rec.extra['exhaustive_over_T'] = tier == 'thorough'
        self._digest_lens = None

    def run(self, op, T, **kw):
        return self.D.run_op(op, T, **kw)

    # ------------------------------------------------------------------ helpers
    def digest_lengths(self):
        """gethlen() of every concrete hasher class, from the code."""
        if self._digest_lens is None:
            prog = self.prog
            from wai.facts import const_getters
            base = next((r['q'] for r in prog.records.values() if any(m['n'] == 'gethlen' for m in r['methods']) and not prog.all_bases(r['q'])), None)
            lens = {q: v['gethlen'] for q, v in const_getters(prog, base, ('gethlen',)).items() if 'gethlen' in v} if base else {}
            if len(lens) < 3:
                raise AnalysisBroken('digest lengths of the hasher classes not found')
            self._digest_lens = lens
        return self._digest_lens

    def consts(self):
        g = self.prog.globals
        out = {}
        for k, v in g.items():
            if isinstance(v.get('value'), int):
                out[k] = v['value']
        return out

    def bytemap(self, st, upto_pipe=True):
        """offset -> descriptor for every byte written to the output root before the pipeline call."""
        m = {}
        overl = []
        for e in accesses(st):
            if e[0] == 'PIPE' and upto_pipe:
                break
            if e[0] != 'W' or e[1] != 'out':
                continue
            pos, size, kind = e[2], e[3], e[4]
            if pos[0] != 'c' or size[0] != 'c':
                m['?'] = e
                continue
            for i in range(size[1]):
                off = pos[1] + i
                if kind[0] == 'const':
                    v = kind[1]
                    d = ('byte', (v >> (8 * i)) & 0xff) if isinstance(v, int) else ('byte', v[i])
                elif kind[0] == 'zero':
                    d = ('byte', 0)
                elif kind[0] == 'bytes':
                    d = kind[1][i]
                elif kind[0] == 'loc':
                    path = kind[2]
                    if path and isinstance(path[-1], int):
                        d = ('loc', kind[1], path[:-1] + (path[-1] + i,))
                    else:
                        d = ('loc', kind[1], path, i)
                else:
                    d = ('unknown',)
                if off in m:
                    overl.append(off)
                m[off] = d
        return m, overl

    # ------------------------------------------------------------------ C02 / C13 / C08 layout and ordering
    def layout(self):
        rec, D = self.rec, self.D
        f = D.ops['encrypt']
        where = '%s:%s' % (f['file'], f['line'])
        cs = self.consts()
        magic = cs.get('FileHeader::Magic_Num')
        lens = self.digest_lengths()
        nsucc = 0
        self.size_rule(('encrypt',))
        self.spin_rule(('encrypt',))
        # R02.h: the length of the output is decided by the bytes written and nothing else (no ftruncate on it)
        ntr = set()
        for T in self.Ts:
            for s, v in self.run('encrypt', T)[1]:
                for e in accesses(s, kinds=('TRUNC',)):
                    if (e[3], show(e[2])) not in ntr:
                        ntr.add((e[3], show(e[2])))
                        rec.ob('R02.h', 'R02.h@%s::length-set-apart-from-the-writes' % e[4], False, e[3],
                               'T=%d: the length of %s is set to %s by ftruncate: the file then ends where that value says, not where the last written byte is' % (
                                   T, 'the output' if e[1] == 'out' else 'a file (%s)' % (e[1],), show(e[2])))
        rec.ob('R02.h', 'R02.h@%s::length-is-end-of-writes' % fkey(f), not ntr, where,
               'encryption changes the length of its output only by writing to it (no ftruncate on any analysed path, T in %s)' % (self.Ts,))
        for T in self.Ts:
            I, out = self.run('encrypt', T)
            succ = [(s, v) for s, v in out if v == C(1)]
            nsucc += len(succ)
            # R13.e: a run that reports failure (cancelled, short input ...) must not have sealed the file with a tag
            nfail = 0
            for s, v in out:
                if v == C(1):
                    continue
                nfail += 1
                ev_ = accesses(s)
                def _zeros(kind):
                    return kind[0] == 'zero' or (kind[0] == 'const' and (kind[1] == 0 or (isinstance(kind[1], tuple) and not any(kind[1]))))
                tagw = [e for e in ev_ if e[0] == 'W' and e[1] == 'out' and e[2] == C(10) and not _zeros(e[4])]
                for e in tagw:
                    rec.ob('R13.e', 'R13.e@%s::no-tag-on-a-failing-run' % fkey(f), False, e[5],
                           'T=%d: execute_encrypt returns %s on a path that has written a tag at offset 10: the unfinished file verifies' % (T, show(v)),
                           path=[str(x) for x in s.trace[-8:]])
            rec.ob('R13.e', 'R13.e@%s::tag-only-on-success' % fkey(f), True, where,
                   'T=%d: %d path(s) of execute_encrypt that do not return success were examined for a tag write (process-wide flags are unknown values)' % (T, nfail))
            for s, v in succ:
                self.mac_key_rule(s, T, f)
                ev = accesses(s)
                bm, overl = self.bytemap(s)
                hdr = 48 + 20 * T
                ok = not overl and '?' not in bm and sorted(k for k in bm if k != '?') == list(range(hdr))
                rec.ob('R02.a', 'R02.a@%s::header-contiguous' % fkey(f), ok, where,
                       'T=%d: header writes cover exactly [0,%d) without gap or overlap: %s' % (T, hdr, 'yes' if ok else 'NO (%d bytes, overlaps %s)' % (len(bm), overl[:4])))
                # the rules below are all evaluated even when the header is not gap-free: a byte nobody wrote is 'missing'
                class _BM(dict):
                    def __missing__(self, k):
                        return ('missing', None, ())
                bm = _BM(bm)
                okm = magic is not None and all(bm[i] == ('byte', (magic >> (8 * i)) & 0xff) for i in range(8))
                rec.ob('R02.a', 'R02.a@%s::magic-at-0' % fkey(f), okm, where, 'T=%d: bytes [0,8) are the magic constant %s' % (T, hex(magic) if magic else '?'))
                def from_member(d, suffix):
                    # written straight from the member, or a byte that holds the (named) value the member has
                    if d[0] == 'loc' and d[2] and str(d[2][-1]).endswith(suffix):
                        return True
                    if d[0] == 'val':
                        return any(k[1] and str(k[1][-1]).endswith(suffix) and v_[0] == 'l' and show(v_) == d[1] for k, v_ in s.mem.items())
                    return False
                okc = from_member(bm[8], '::ctype') and from_member(bm[9], '::htype')
                rec.ob('R02.a', 'R02.a@%s::mode-bytes-at-8-9' % fkey(f), okc, where, 'T=%d: byte 8 <- %s, byte 9 <- %s' % (T, bm[8][1:], bm[9][1:]))
                okz = all(bm[i] == ('byte', 0) for i in range(10, 48))
                rec.ob('R02.b', 'R02.b@%s::tag-area-zero' % fkey(f), okz, where, 'T=%d: bytes [10,48) written as zeros before the body' % T)
                # IV slots: byte 48+20i+j comes from iv[20i+j] of one array
                # the IV array: its own object, or an array member of some object (base = object + path prefix)
                ivobjs = {(bm[o][1], tuple(bm[o][2][:-1])) for o in range(48, hdr) if bm[o][0] == 'loc' and bm[o][2]}
                okiv = len(ivobjs) == 1 and all(bm[48 + k][0] == 'loc' and bm[48 + k][2] and bm[48 + k][2][-1] == k for k in range(20 * T))
                rec.ob('R02.a', 'R02.a@%s::iv-slots' % fkey(f), okiv, where, 'T=%d: bytes [48,%d) are iv[0..%d) of one array' % (T, hdr, 20 * T))
                ivobj = next(iter(ivobjs)) if len(ivobjs) == 1 else None
                # pipeline starts at the end of the header, reads the input from 0
                pipes = [e for e in ev if e[0] == 'PIPE']
                okp = len(pipes) == 1 and pipes[0][1] == C(0) and pipes[0][2] == C(hdr)
                rec.ob('R02.a', 'R02.a@%s::body-follows-header' % fkey(f), okp, where,
                       'T=%d: pipeline runs once, input from %s, output from %s (expected 0 and %d)' % (
                           T, show(pipes[0][1]) if pipes else '-', show(pipes[0][2]) if pipes else '-', hdr))
                # R02.c IV chain
                self.iv_chain(s, ev, T, ivobj, f, where)
                # R13 / R08.b: after the pipeline exactly one write to the output: the tag at 10, hashed from 48, written last
                self.tag_rules(s, ev, T, f, where, lens)
                # R18: streams
                self.stream_rules(s, ev, T, ivobj, f, where, enc=True)
        rec.count('R02.a encrypt success paths', nsucc, len(self.Ts))
        rec.count('R13.a encrypt paths with a body', getattr(self, 'n_tag', 0), len(self.Ts))

    def iv_chain(self, s, ev, T, ivobj, f, where):
        rec = self.rec
        hs = [e for e in ev if e[0] == 'HASHSTR' and 'getIV' in e[5]]
        ok = len(hs) == T and ivobj is not None
        det = []
        if ok:
            first = hs[0]
            seedp = show(P(RBUF, (0,)))
            ok = first[1] == seedp and first[2].startswith('$strlen:' + seedp) or first[2].startswith('$strnlen:' + seedp)
            ok = ok and first[3] == show(P(ivobj[0], ivobj[1] + (0,)))
            if not ok:
                det.append('first digest: src=%s len=%s out=%s' % (first[1], first[2], first[3]))
            for i in range(1, T):
                e = hs[i]
                good = e[1] == show(P(ivobj[0], ivobj[1] + (20 * (i - 1),))) and e[2] == '20' and e[3] == show(P(ivobj[0], ivobj[1] + (20 * i,)))
                if not good:
                    det.append('link %d: src=%s len=%s out=%s' % (i, e[1], e[2], e[3]))
                ok = ok and good
        rec.ob('R02.c', 'R02.c@%s::iv-chain' % fkey(f), ok, where,
               'T=%d: iv[0]=H(seed over its full strlen), iv[i]=H(20 bytes at iv+20(i-1)) -> iv+20i: %s' % (
                   T, 'yes' if ok else 'NO ' + '; '.join(det[:3]) + (' (%d digests)' % len(hs))))
        # the hasher used for the chain is SHA-1 (20-byte slots)
        # (checked through the stride: a different digest length would not fill 20-byte slots)

    def tag_rules(self, s, ev, T, f, where, lens):
        rec = self.rec
        ip = next((i for i, e in enumerate(ev) if e[0] == 'PIPE'), None)
        if ip is None:
            rec.ob('R13.a', 'R13.a@%s::single-write-after-body' % fkey(f), False, where, 'T=%d: encryption reports success on a path that never ran the pipeline (no body)' % T)
            return
        after = ev[ip + 1:]
        wout = [e for e in after if e[0] == 'W' and e[1] == 'out']
        ok1 = len(wout) == 1
        self.n_tag = getattr(self, 'n_tag', 0) + 1
        rec.ob('R13.a', 'R13.a@%s::single-write-after-body' % fkey(f), ok1, where,
               'T=%d: %d write(s) to the output after the body (must be exactly the tag)' % (T, len(wout)))
        if not wout:
            rec.ob('R08.b', 'R08.b@%s::tag-at-10' % fkey(f), False, where, 'T=%d: no write after the body: the tag is never stored' % T)
            return
        w = wout[-1]        # with several writes after the body the last one is judged as the tag (R13.a has already failed)
        L = w[3][1] if w[3][0] == 'c' else None
        okpos = w[2] == C(10) and L in set(lens.values()) and L <= 38
        rec.ob('R08.b', 'R08.b@%s::tag-at-10' % fkey(f), okpos, w[5], 'T=%d: tag written at offset %s, %s bytes (digest lengths %s, field 38)' % (
            T, show(w[2]), L, sorted(set(lens.values()))))
        # hashed range: a file-hash over the output from 48 to EOF between the body and the tag write
        iw = after.index(w)
        hb = [e for e in after[:iw] if e[0] == 'HBUF']
        okh = len(hb) == 1 and hb[0][1] == 'out' and hb[0][2] == C(48)
        rec.ob('R08.b', 'R08.b@%s::hash-from-48-to-eof' % fkey(f), okh, where,
               'T=%d: tag is computed by hashing stream %s from offset %s to EOF after the body was written' % (
                   T, hb[0][1] if hb else '-', show(hb[0][2]) if hb else '-'))
        hstr = [e for e in after[:iw] if e[0] == 'HASHSTR']
        okl = len(hstr) == 1 and L is not None and hstr[0][2] == str(64 + L)
        rec.ob('R08.a', 'R08.a@%s::outer-length' % fkey(f), okl, where,
               'T=%d: outer hash over %s bytes (block 64 + digest %s)' % (T, hstr[0][2] if hstr else '-', L))
        # R13.b: last access to the output root is the tag write, only close follows
        rest = [e for e in after[iw + 1:] if e[0] in ('W', 'SEEK', 'R') and e[1] == 'out']
        rec.ob('R13.b', 'R13.b@%s::tag-write-is-last' % fkey(f), not rest, where, 'T=%d: %d output accesses after the tag write' % (T, len(rest)))
        # R13.c: nothing but zeros reached [10,48) before the tag write (header zeros, then body beyond the header)
        bm, _ = self.bytemap(s)
        okz = all(bm.get(i) == ('byte', 0) for i in range(10, 48))
        rec.ob('R13.c', 'R13.c@%s::tag-area-zero-until-end' % fkey(f), okz, where, 'T=%d: tag area holds zeros in every state before the final write' % T)
        # the written bytes are the hmac result buffer
        rec.ob('R13.d', 'R13.d@%s::tag-is-hash-result' % fkey(f), w[4][0] == 'loc' and hstr and hstr[0][3] == show(P(w[4][1], w[4][2])), w[5],
               'T=%d: tag bytes come from %s; outer digest stored to %s' % (T, w[4][1:] if w[4][0] == 'loc' else w[4], hstr[0][3] if hstr else '-'))

    def stream_rules(self, s, ev, T, ivobj, f, where, enc):
        rec = self.rec
        st = [e for e in ev if e[0] == 'STREAM']
        ok = len(st) == T
        rec.ob('R02.d', 'R02.d@%s::one-stream-per-thread' % fkey(f), ok, where, 'T=%d: %d cipher streams created' % (T, len(st)))
        for e in st:
            k, args, ivf, keyf = e[1], e[2], e[3], e[4]
            want = P(ivobj[0], ivobj[1] + (20 * k,)) if ivobj is not None else None
            same_obj = ivf is not None and ivf[0] == 'p' and ivobj is not None and ivf[1] == ivobj[0] and tuple(ivf[2][:-1]) == ivobj[1]
            rec.ob('R18.c', 'R18.c@%s::stream-iv-from-stored-ivs' % fkey(f), same_obj, e[5],
                   'T=%d: stream %d starts from %s; the IV array %s is %s' % (
                       T, k, show(ivf) if ivf else '?', 'written to / read from the header' if ivobj else 'unknown',
                       'the same object' if same_obj else 'a DIFFERENT object'))
            own = same_obj and ivf == want
            if not own:
                # one finding, whatever k: the IV given to the streams does not depend on the stream index
                allsame = len({x[3] for x in st}) == 1
                rec.ob('R18.a', 'R18.a@%s::stream-iv-loop-invariant' % fkey(self.prog.functions[self.D.factory_caller]) if allsame else
                       'R18.a@%s::stream-%d-wrong-iv' % (fkey(f), k), False, e[5],
                       'T=%d: stream %d is built from %s instead of its own slot iv+%d' % (T, k, show(ivf) if ivf else '?', 20 * k))
            else:
                rec.ob('R18.a', 'R18.a@%s::stream-own-iv' % fkey(f), True, e[5], 'T=%d: stream %d starts from iv+%d' % (T, k, 20 * k))
            # C02's statement documents the current behaviour: every stream is keyed with the first 16 bytes of the FIRST IV
            rec.ob('R02.i', 'R02.i@%s::streams-start-from-first-iv' % fkey(f), same_obj and ivf == P(ivobj[0], ivobj[1] + (0,)), e[5],
                   'T=%d: stream %d starts from %s (documented format: the first IV for every stream)' % (T, k, show(ivf) if ivf else '?'))
            kv = s.comps.get(('streamkey', k))
            okk = keyf == P(KEY, (0,)) or kv == tuple('$key%d' % j for j in range(16))
            rec.ob('R06.b', 'R06.b@%s::stream-key-is-operation-key' % fkey(f), okk, e[5], 'stream key %s holds %s' % (
                show(keyf) if keyf else 'copy', 'the 16 bytes of the operation key' if okk else kv))
            dirv = args[0] if args else None
            rec.ob('R02.d', 'R02.d@%s::stream-direction' % fkey(f), dirv == C(1 if enc else 0), e[5],
                   'stream %d created for %s (flag %s)' % (k, 'encryption' if enc else 'decryption', show(dirv) if dirv else '?'))

    # ------------------------------------------------------------------ reader side: R01.e, R05.*, R11.*, S-GATE
    def reader(self):
        rec, D = self.rec, self.D
        fd, fv = D.ops['decrypt'], D.ops['verify']
        lens = self.digest_lengths()
        ngate = 0
        for T in self.Ts:
            hdr = 48 + 20 * T
            for op in ('decrypt', 'verify'):
                f = D.ops[op]
                where = '%s:%s' % (f['file'], f['line'])
                I, out = self.run(op, T)
                # R11.b: constant tables subscripted by (values computed from) file bytes
                seen_oob = set()
                for name, idx, r, size, loc_ in list(I.oob_may) + [(None, C(i), (i, i), n_, None) for i, n_ in I.oob]:
                    k = (name, loc_)
                    if k in seen_oob:
                        continue
                    seen_oob.add(k)
                    rec.ob('R11.b', 'R11.b@%s::table-subscript-in-range::%s' % (fkey(f), name), False, loc_ or where,
                           'T=%d %s: constant table %s (%d entries) is subscripted with %s in [%d, %d] on a path steered by file bytes' % (
                               T, op, name, size, show(idx), r[0], r[1]))
                rec.ob('R11.b', 'R11.b@%s::table-subscripts-in-range' % fkey(f), not seen_oob, where,
                       'T=%d %s: every subscript of a constant table on the analysed paths stays inside the table: %s' % (T, op, 'yes' if not seen_oob else 'NO'))
                for s, v in out:
                    self.mac_key_rule(s, T, f)
                    ev = accesses(s, kinds=('W', 'R', 'SEEK', 'PIPE', 'HASHFILE', 'HBUF', 'CLOSE', 'HASHSTR', 'NULLDEREF', 'VERIFYRET', 'STREAM'))
                    vr = s.comps.get('verify_ret')
                    # R12 / S-GATE: success is exactly "verification returned 0"
                    if vr is not None:
                        want = compare('==', vr, C(0), s.sym)
                        ok = v[0] == 'c' and want is not None and bool(v[1]) == want
                        rec.ob('R12.a', 'R12.a@%s::result-is-verify-eq-0' % fkey(f), ok, where,
                               'T=%d: %s returns %s on a path where the shared verification step returned %s' % (T, f['name'], show(v), show(vr)))
                    for e in ev:
                        if e[0] == 'NULLDEREF':
                            rec.ob('R11.a', 'R11.a@%s::null-dereference' % e[2], False, e[1],
                                   'T=%d %s: %s is dereferenced on a path steered by file bytes' % (T, op, e[3]))
                    # output effects only behind the gate
                    iv = next((i for i, e in enumerate(ev) if e[0] == 'VERIFYRET'), None)
                    for i, e in enumerate(ev):
                        if (e[0] == 'W' and e[1] == 'out') or e[0] == 'PIPE':
                            ngate += 1
                            gated = iv is not None and i > iv and compare('==', ev[iv][1], C(0), s.sym) is True
                            if op == 'verify':
                                rec.ob('R12.b', 'R12.b@%s::verify-writes-nothing' % fkey(f), False, e[-2] if e[0] == 'W' else e[3],
                                       'verification path produces output (%s)' % e[0])
                            else:
                                rec.ob('S-GATE', 'S-GATE@%s::output-only-after-verify-0' % fkey(f), gated, e[-2] if e[0] == 'W' else e[3],
                                       'T=%d: %s happens %s' % (T, 'pipeline run' if e[0] == 'PIPE' else 'output write',
                                                               'after verification returned 0' if gated else 'WITHOUT a preceding successful verification'))
                        if e[0] == 'W' and e[1] == 'fin':
                            rec.ob('R02.f', 'R02.f@%s::input-written' % e[6], False, e[5], 'write through the input stream')
                    for e in accesses(s, kinds=('TRUNC',)):
                        if e[1] != 'out':
                            rec.ob('R02.f', 'R02.f@%s::input-written' % e[4], False, e[3], 'ftruncate on %s' % ('the input stream' if e[1] == 'fin' else 'a file that is not the output'))
                    if op == 'decrypt' and v == C(1):
                        pipes = [e for e in ev if e[0] == 'PIPE']
                        okp = len(pipes) == 1 and pipes[0][1] == C(hdr) and pipes[0][2] == C(0)
                        rec.ob('R01.e', 'R01.e@%s::body-offset' % fkey(f), okp, where,
                               'T=%d: decryption streams the input from offset %s (writer put the body at %d), output from %s' % (
                                   T, show(pipes[0][1]) if pipes else '-', hdr, show(pipes[0][2]) if pipes else '-'))
                        # IVs are read from [48, 48+20T)
                        rd = [e for e in ev if e[0] == 'R' and e[1] == 'fin' and e[2] == C(48) and e[3] == C(20 * T)]
                        ivobj = (rd[-1][4][1], tuple(rd[-1][4][2][:-1])) if rd and rd[-1][4][0] == 'loc' and rd[-1][4][2] else None
                        rec.ob('R18.c', 'R18.c@%s::ivs-read-from-header' % fkey(f), bool(rd), where, 'T=%d: %d bytes read at 48 into the IV array' % (T, 20 * T))
                        self.stream_rules(s, ev, T, ivobj, f, where, enc=False)
                        self.authenticated(s, ev, T, f, where)
                    if vr is not None and compare('==', vr, C(0), s.sym) is True:
                        self.hash_range(s, ev, T, f, where, lens)
                        full = s.comps.get('log', ())
                        ivr = next((i for i, e in enumerate(full) if e[0] == 'VERIFYRET'), len(full))
                        cmps = [e for e in full[:ivr] if e[0] == 'TAGCMP']
                        okc = len(cmps) == 1 and cmps[0][1] == C(1)
                        rec.ob('R05.e', 'R05.e@%s::accept-only-through-complete-compare' % fkey(self.verify), okc, where,
                               'T=%d %s: verification accepts %s' % (T, op, 'after the tag compare (S-CMP) returned true' if okc else
                                                                    'WITHOUT a true result of the tag compare function %s (%d calls)' % (self.tagcmp['q'], len(cmps))))
        rec.count('S-GATE gated effects', ngate, len(self.Ts))
        # null dereferences on paths that ended there (no outcome state carries their log)
        for op_, wh_, fn_, val_, path_ in sorted(set(self.D.nullderefs)):
            if op_ in ('decrypt', 'verify'):
                rec.ob('R11.a', 'R11.a@%s::null-dereference' % fn_, False, wh_, '%s: %s is dereferenced on a path steered by file bytes' % (op_, val_), path=list(path_))
        # summaries of the rules that otherwise only speak when they fail
        nver = sum(len(self.run('verify', T)[1]) for T in self.Ts)
        rec.ob('R12.b', 'R12.b@%s::verify-has-no-output-effect' % fkey(fv), not any(o.rule == 'R12.b' and o.ok is False for o in rec.obls), '%s:%s' % (fv['file'], fv['line']),
               'no write to the output stream and no pipeline run on any of the %d abstract paths of execute_verify (T in %s)' % (nver, self.Ts))
        rec.ob('R02.f', 'R02.f@%s::input-stream-never-written' % self.D.RCq, not any(o.rule == 'R02.f' and o.ok is False and 'input-written' in o.key for o in rec.obls),
               '%s:%s' % (fd['file'], fd['line']), 'no fwrite/fputc through the input stream on any analysed path of decrypt and verify')
        # R11.g: extents of block operations and indexed stores decided from input symbols
        for op in ('decrypt', 'verify'):
            f = D.ops[op]
            bad = sorted({v[1:] for v in self.bl.viol if v[0] == op})
            for kind, wh, fn, det in bad:
                rec.ob('R11.g', 'R11.g@%s::%s-inside-object' % (fn, kind.replace(' ', '-')), False, wh, '%s: %s' % (op, det))
            rec.ob('R11.g', 'R11.g@%s::extents-inside-objects' % fkey(f), not bad, '%s:%s' % (f['file'], f['line']),
                   '%s: %d block operations / indexed stores with an extent decided from constants and input symbols, all inside the array object they address: %s' % (
                       op, self.bl.per_tag.get(op, 0), 'yes' if not bad else 'NO'))
        rec.count('R11.g decided extents', sum(self.bl.per_tag.get(op, 0) for op in ('decrypt', 'verify')), 4)
        self.size_rule(('decrypt', 'verify'))
        self.spin_rule(('decrypt', 'verify'))
        self.field_agreement()
        # R12.c: both operations do the same things before and inside verification
        for T in self.Ts[:2]:
            sigs = {}
            for op in ('decrypt', 'verify'):
                I, out = self.run(op, T)
                sig = set()
                for s, v in out:
                    ev = s.comps.get('log', ())
                    iv = next((i for i, e in enumerate(ev) if e[0] == 'VERIFYRET'), None)
                    pre = tuple(norm((e[0],) + tuple(x for x in e[1:] if not (isinstance(x, str) and ':' in x and x.split(':')[-1].isdigit())))
                                for e in (ev[:iv + 1] if iv is not None else ev) if e[0] in ('R', 'SEEK', 'HBUF', 'HASHFILE', 'VERIFYRET', 'W'))
                    sig.add((pre, iv is not None))
                sigs[op] = sig
            same = {x for x in sigs['decrypt'] if x[1]} == {x for x in sigs['verify'] if x[1]}
            rec.ob('R12.c', 'R12.c@%s::same-checks-in-both-operations' % self.D.RCq, same, '%s:%s' % (fd['file'], fd['line']),
                   'T=%d: decrypt and verify reach the shared verification step with the same reads and get the same set of outcomes' % T)
            for op in ('decrypt', 'verify'):
                I, out = self.run(op, T, fin_null=True)
                ok = all(v == C(0) and not [e for e in accesses(s) if e[0] in ('R', 'W', 'PIPE')] for s, v in out)
                rec.ob('R12.c', 'R12.c@%s::missing-input-handled-alike' % fkey(D.ops[op]), ok, '%s:%s' % (D.ops[op]['file'], D.ops[op]['line']),
                       '%s with no input file returns failure without touching any stream' % op)

        # does what the shared verification step accepts depend on the stream count?  (consumed by R12.f)
        sig = {}
        for T in self.Ts:
            I, out = self.run('verify', T)
            sig[T] = frozenset((show(v), s.sym.get('$fsize')) for s, v in out)
        dep = [T for T in self.Ts if sig[T] != sig[self.Ts[0]]]
        rec.extra['verify_outcome_depends_on_stream_count'] = bool(dep)
        rec.extra['verify_outcome_signature'] = {str(T): sorted(map(str, sig[T])) for T in (self.Ts[0], dep[0] if dep else self.Ts[-1])}

    def spin_rule(self, ops):
        """R04.f (driver part): no loop of an operation comes back to a state it was in with every decision closed (a read that keeps
        delivering nothing at the end of the input included)."""
        rec, D = self.rec, self.D
        for op in ops:
            f = D.ops[op]
            seen = {}
            for T in self.Ts:
                I, _ = self.run(op, T)
                for wh, path in I.diverged:
                    seen.setdefault(wh, (T, path))
            for wh, (T, path) in sorted(seen.items()):
                rec.ob('R04.f', 'R04.f@%s::loop-cannot-spin::%s' % (fkey(f), wh.split(':')[0]), False, wh,
                       '%s (T=%d): the loop at %s returns to the same state with no decision left open: on that input it never ends' % (op, T, wh), path=list(path))
            rec.ob('R04.f', 'R04.f@%s::no-loop-spins' % fkey(f), not seen, '%s:%s' % (f['file'], f['line']),
                   '%s: no loop on the analysed paths can repeat a state with every decision closed (T in %s)' % (op, self.Ts))

    def field_agreement(self):
        """R08.r: a scalar header field (mode bytes) that the writer stores from a member at a fixed offset is taken by the reading
        operations from that same offset into that same member, on every path that gets as far as a verdict of verification: a path
        that keeps the caller's value, or reads the member from another offset, hashes / deciphers with a mode the file does not name."""
        rec, D = self.rec, self.D
        def fieldkey(k):
            return k[1] if k[0] == 'loc' and k[2] and isinstance(k[2][-1], str) else None
        wmap = {}
        for T in self.Ts[:2]:
            for s, v in self.run('encrypt', T)[1]:
                if v != C(1):
                    continue
                for e in accesses(s, kinds=('W',)):
                    if e[1] == 'out' and e[4][0] == 'loc' and e[4][2] and isinstance(e[4][2][-1], str) and e[2][0] == 'c' and e[3][0] == 'c' and e[3][1] <= 8:
                        wmap.setdefault(e[4][2][-1], set()).add((e[2][1], e[3][1]))
                    elif e[1] == 'out' and e[4][0] == 'bytes' and e[2][0] == 'c':
                        # a block assembled in memory: a byte that holds the named value of a scalar member stands for that member
                        for i, d in enumerate(e[4][1]):
                            if d[0] != 'val':
                                continue
                            # ... of the class whose member function writes the block
                            wrec = str(e[6]).rsplit('::', 1)[0] if '::' in str(e[6]) else None
                            holders = [k for k, v_ in s.mem.items() if k[1] and isinstance(k[1][-1], str) and v_[0] == 'l' and show(v_) == d[1]
                                       and k[0] == RC and (wrec is None or k[1][-1].startswith(wrec + '::'))]
                            for k in holders:
                                wmap.setdefault(k[1][-1], set()).add((e[2][1] + i, 1))
        wmap = {k: next(iter(v)) for k, v in wmap.items() if len(v) == 1}
        nchk = 0
        for op in ('decrypt', 'verify'):
            f = D.ops[op]
            where = '%s:%s' % (f['file'], f['line'])
            bad, direct = {}, set()
            paths = []
            for T in self.Ts[:2]:
                for s, v in self.run(op, T)[1]:
                    ev = accesses(s, kinds=('R', 'VERIFYRET'))
                    iv = next((i for i, e in enumerate(ev) if e[0] == 'VERIFYRET'), None)
                    got = {}
                    for e in ev[:iv if iv is not None else len(ev)]:
                        if e[0] == 'R' and e[1] == 'fin' and e[4][0] == 'loc' and e[4][2] and isinstance(e[4][2][-1], str) and e[4][2][-1] in wmap:
                            got[e[4][2][-1]] = (e[2], e[3], e[5])
                            direct.add(e[4][2][-1])
                    accepted = iv is not None and compare('==', ev[iv][1], C(0), s.sym) is True
                    # a member that was not the destination of a read may still hold a byte read elsewhere (a local header block):
                    # file bytes are named by their offset
                    for k, v_ in s.mem.items():
                        if k[0] == RC and k[1] and k[1][-1] in wmap and k[1][-1] not in got and v_[0] == 'l' and len(v_[2]) == 1 and v_[1] == 0:
                            m_ = re.match(r'^\$file:fin:(\d+):(\d+)$', str(v_[2][0][0]))
                            if m_:
                                got[k[1][-1]] = (C(int(m_.group(1))), C(int(m_.group(2))), '%s:%s' % (f['file'], f['line']))
                                direct.add(k[1][-1])
                    paths.append((T, got, accepted, s))
            for T, got, accepted, s in paths:
                for fld, (pos, size, wh) in got.items():
                    nchk += 1
                    # offsets are compared for the case that every earlier read was complete (a short read ends in a rejection anyway)
                    if pos[0] == 'l' and all(str(sy).startswith('$got') for sy, _ in pos[2]):
                        r_ = rng(pos, s.sym)
                        pos = C(r_[1]) if r_ is not None and all(c_ > 0 for _, c_ in pos[2]) else pos
                    if not (pos == C(wmap[fld][0]) and size == C(wmap[fld][1])):
                        bad.setdefault((fld, wh), 'T=%d: member %s is read from input offset %s (%s byte(s)); the writer stores it at offset %d (%d byte(s))' % (
                            T, fld, show(pos), show(size), wmap[fld][0], wmap[fld][1]))
                if accepted:
                    for fld in sorted(wmap):
                        if fld not in got:
                            bad.setdefault((fld, where), 'T=%d: verification accepts on a path on which member %s does not hold the byte the writer stored at offset %d '
                                           '(it was not read from the file on this path): the value it had before is used' % (T, fld, wmap[fld][0]))
            for (fld, wh), det in sorted(bad.items()):
                rec.ob('R08.r', 'R08.r@%s::%s-from-the-writers-offset' % (fkey(f), fld.split('::')[-1]), False, wh, '%s: %s' % (op, det), )
            rec.ob('R08.r', 'R08.r@%s::header-members-from-the-writers-offsets' % fkey(f), not bad, where,
                   '%s: members the writer stores at fixed offsets %s; read back directly: %s; every such read is at the writer\'s offset and no accepting path skips it' % (
                       op, {k.split('::')[-1]: v[0] for k, v in sorted(wmap.items())}, sorted(x.split('::')[-1] for x in direct)))
        rec.count('R08.r header members the writer stores at fixed offsets', len(wmap), 2)

    SIZE_PREFIXES = ('$fsize', '$got', '$strlen', '$strnlen', '$atoi')

    def size_rule(self, ops):
        """R01.j: no branch of an operation is decided by a byte count (the caller's size, an fread count) after a conversion to a
        type that cannot hold its whole range: for the sizes beyond that type the branch goes the wrong way."""
        rec, D = self.rec, self.D
        for op in ops:
            f = D.ops[op]
            seen, nconv = {}, 0
            for T in self.Ts:
                I, _ = self.run(op, T)
                nconv += len(I.truncs)
                for d in I.trunc_decisions:
                    if d['syms'] and all(x.startswith(self.SIZE_PREFIXES) for x in d['syms']):
                        seen.setdefault((d['where'], d['decided_at'], d['decided_in']), (T, d))
            for (wh, at, fn), (T, d) in sorted(seen.items()):
                rec.ob('R01.j', 'R01.j@%s::branch-on-wrapped-size' % fn, False, at,
                       '%s (T=%d): %s with range [%d, %d] is converted to a %d-bit %s type at %s and the converted value decides the branch at %s' % (
                           op, T, d['expr'], d['range'][0], d['range'][1], d['bits'], 'signed' if d['signed'] else 'unsigned', wh, at))
            rec.ob('R01.j', 'R01.j@%s::sizes-keep-their-range' % fkey(f), not seen, '%s:%s' % (f['file'], f['line']),
                   '%s: no branch is decided by a byte count that was converted to a type too narrow for its range (%d range-losing conversions seen, T in %s)' % (
                       op, nconv, self.Ts))

    def mac_key_rule(self, s, T, f):
        """R06.c: the 16 bytes the MAC is keyed with are the 16 bytes of the operation's key."""
        want = tuple('$key%d' % j for j in range(16))
        for e in s.comps.get('log', ()):
            if e[0] == 'MACKEY':
                ok = e[2] == want
                self.n_mackey = getattr(self, 'n_mackey', 0) + 1
                self.rec.ob('R06.c', 'R06.c@%s::mac-key-is-operation-key' % fkey(f), ok, e[3],
                            'T=%d: %s is keyed with %s' % (T, e[1], 'the 16 bytes of the operation key' if ok else 'bytes %s (operation key = $key0..$key15)' % (e[2],)))

    def hash_range(self, s, ev, T, f, where, lens):
        rec = self.rec
        iv = next((i for i, e in enumerate(ev) if e[0] == 'VERIFYRET'), len(ev))
        hb = [e for e in ev[:iv] if e[0] == 'HBUF']
        ok = len(hb) == 1 and hb[0][1] == 'fin' and hb[0][2] == C(48)
        rec.ob('R05.d', 'R05.d@%s::verify-hashes-48-to-eof' % fkey(self.verify), ok, where,
               'T=%d: accepted path hashed stream %s from %s to EOF (writer hashed the output from 48)' % (
                   T, hb[0][1] if hb else '-', show(hb[0][2]) if hb else '-'))
        rd = [e for e in ev[:iv] if e[0] == 'R' and e[1] == 'fin' and e[2] == C(10)]
        ok2 = bool(rd) and rd[0][3][0] == 'c' and rd[0][3][1] >= max(lens.values())
        rec.ob('R08.b', 'R08.b@%s::stored-tag-read-at-10' % fkey(self.verify), ok2, where,
               'T=%d: stored tag read from offset 10, %s bytes (>= longest digest %d)' % (T, show(rd[0][3]) if rd else '-', max(lens.values())))

    def authenticated(self, s, ev, T, f, where):
        """R05.a: every file-derived scalar that steers what happens after the gate lies in the hashed range or is pinned to a constant."""
        rec = self.rec
        iv = next((i for i, e in enumerate(ev) if e[0] == 'VERIFYRET'), None)
        if iv is None:
            return
        for e in ev[iv + 1:]:
            vals = []
            if e[0] == 'STREAM':
                vals = list(e[2]) + [e[3]]
            elif e[0] in ('SEEK',):
                vals = [e[2]]
            elif e[0] == 'PIPE':
                vals = [e[1], e[2]]
            for v in vals:
                for sy in symbols_in(v):
                    if not sy.startswith('$file:fin:'):
                        continue
                    _, _, pos, size = sy.rsplit(':', 3)[0], None, sy.split(':')[2], sy.split(':')[3]
                    r = s.sym.get(sy)
                    pinned = r is not None and r[0] == r[1]
                    inrange = pos.isdigit() and int(pos) >= 48
                    src = next((x for x in ev if x[0] == 'R' and x[1] == 'fin' and show(x[2]) == pos), None)
                    name = src[4][2][-1] if src and src[4][0] == 'loc' and src[4][2] else pos
                    if not isinstance(name, str) or '::' not in name:
                        # read into a local block and copied out: name the member that holds this file byte
                        holder = sorted(str(k[1][-1]) for k, v_ in s.mem.items() if k[0] == RC and k[1] and isinstance(k[1][-1], str)
                                        and v_[0] == 'l' and any(x == sy for x, _ in v_[2]))
                        if holder:
                            name = holder[0]
                        if src is None:
                            src = next((x for x in ev if x[0] == 'R' and x[1] == 'fin' and x[2][0] == 'c' and x[3][0] == 'c'
                                        and pos.isdigit() and x[2][1] <= int(pos) < x[2][1] + x[3][1]), None)
                    rdfn = None
                    if src is not None:
                        cands = [g for g in self.prog.functions.values() if g['q'] == src[6]]
                        rdfn = cands[0] if len(cands) == 1 else None
                    anchor = fkey(rdfn) if rdfn else fkey(self.verify)
                    rec.ob('R05.a', 'R05.a@%s::unauthenticated-%s' % (anchor, name), pinned or inrange, e[-1] if e[0] == 'STREAM' else where,
                           'T=%d: value read from input offset %s (%s byte) steers %s after verification; offset is %s the authenticated range [48,EOF)%s' % (
                               T, pos, size, {'STREAM': 'the choice of cipher stream', 'SEEK': 'a seek', 'PIPE': 'the pipeline'}[e[0]],
                               'inside' if inrange else 'OUTSIDE', '' if not pinned else ' but pinned to one value'))
            if e[0] == 'STREAM':
                # R11.a: the selector must lie within the factory's non-NULL cases
                tv = e[2][1] if len(e[2]) > 1 else None
                valid = self.factory_cases()
                r = rng(tv, s.sym) if tv is not None and is_int(tv) else None
                ok = r is not None and all(x in valid for x in range(r[0], min(r[1], r[0] + 300) + 1)) and r[1] - r[0] < 300
                rec.ob('R11.a', 'R11.a@%s::stream-selector-in-range' % fkey(f), ok, e[5],
                       'T=%d: cipher selector in %s; factory returns a stream for %s' % (T, r, sorted(valid)))

    def factory_cases(self):
        if not hasattr(self, '_fc'):
            prog = self.prog
            fac = self.D.factory
            valid = set()
            for t in range(0, 256):
                I = interp.Interp(prog, models=dict(models.STD_MODELS), opaque=())
                I.inline_depth = 1
                ok = True
                for enc in (0, 1):
                    r = I.run(fac, interp.State(), this=P(('ext', 'fac'), ()), args=[C(enc), C(t)])
                    ok = ok and all(v[0] == 'p' for _, v in r) and len(r) >= 1
                if ok:
                    valid.add(t)
            self._fc = valid
        return self._fc

    # ------------------------------------------------------------------ C15: singleton pairing
    def singleton(self):
        rec, D = self.rec, self.D
        A = None
        n = 0
        for T in self.Ts[:2]:
            for op in ('encrypt', 'decrypt', 'verify'):
                f = D.ops[op]
                I, out = self.run(op, T)
                A = D.A
                for s, v in out:
                    n += 1
                    inst = s.mem.get(('G:%s::instance' % A.Gq, ()))
                    # released, or kept on purpose: then R14.t decides whether the next operation re-establishes its loop state
                    ok = inst == NULL or (inst is not None and inst[0] == 'p')
                    rec.ob('R15.a', 'R15.a@%s::singleton-released' % fkey(f), ok, '%s:%s' % (f['file'], f['line']),
                           'T=%d: %s returns %s with the buffer-group singleton %s' % (T, f['name'], show(v), 'released' if inst == NULL else
                                                                                      'kept (what the next operation finds in it is R14.t)' if ok else 'in an unknown state'),
                           path=[str(x) for x in s.trace[-6:]])
                    if A.live:
                        lv = s.mem.get((A.live, ()))
                        okl = lv is not None and is_int(lv) and compare('==', lv, C(0), s.sym) is True
                        rec.ob('R15.b', 'R15.b@%s::live-counter-zero' % fkey(f), okl, '%s:%s' % (f['file'], f['line']),
                               'T=%d: live counter is %s when %s returns' % (T, show(lv) if lv else '?', f['name']))
        rec.count('R15.a operation exits', n, 3)
        # R15.m: what the singleton allocates for one operation is released with it: every member that one of its methods sets
        #        to a new[] allocation is the operand of a delete in its destructor (or the member is a smart pointer / container)
        if A is not None:
            G = A.G
            news, dels = {}, set()
            for m_ in G['methods']:
                g_ = self.prog.functions.get(m_['id'])
                if g_ is None or g_.get('body') is None:
                    continue
                for n_ in walk(g_['body']):
                    if n_['k'] == 'BinaryOperator' and n_.get('op') == '=' and strip(n_['rhs']).get('k') == 'CXXNewExpr':
                        l_ = strip(n_['lhs'])
                        if l_.get('k') == 'MemberExpr' and l_.get('d'):
                            news[l_['d'][2:]] = nloc(n_)
            # the destructor and the member functions it calls (transitively)
            dtor = next((self.prog.functions.get(m_['id']) for m_ in G['methods'] if m_['n'].startswith('~') and m_['id'] in self.prog.functions), None)
            todo_, seen_ = [dtor] if dtor else [], set()
            while todo_:
                g_ = todo_.pop()
                if g_ is None or g_['id'] in seen_ or g_.get('body') is None:
                    continue
                seen_.add(g_['id'])
                for n_ in walk(g_['body']):
                    if n_['k'] == 'CXXDeleteExpr':
                        e_ = strip(n_.get('e') or {})
                        if e_.get('k') == 'MemberExpr' and e_.get('d'):
                            dels.add(e_['d'][2:])
                    if n_['k'] in ('CXXMemberCallExpr', 'CallExpr'):
                        c_ = self.prog.functions.get((n_.get('callee') or {}).get('m'))
                        if c_ is not None and c_.get('rec') == G['q']:
                            todo_.append(c_)
            for fld_, wh_ in sorted(news.items()):
                rec.ob('R15.m', 'R15.m@%s::allocation-released-with-the-singleton::%s' % (A.Gq, fld_.split('::')[-1]), fld_ in dels, wh_,
                       'member %s is set to a new[] allocation here; the destructor of %s %s it' % (fld_, A.Gq, 'deletes' if fld_ in dels else 'does NOT delete'))
            rec.ob('R15.m', 'R15.m@%s::allocations-released-with-the-singleton' % A.Gq, all(f_ in dels for f_ in news), G['file'],
                   '%d member(s) of %s hold per-operation allocations; operands of delete in its destructor: %s' % (len(news), A.Gq, sorted(x.split('::')[-1] for x in dels)))
        # R15.k: every path of every operation has closed both streams it was given (a stream left open is a descriptor the
        # process never gets back: enough failing operations and an ordinary one cannot open its files any more)
        for op in ('encrypt', 'decrypt', 'verify'):
            f = D.ops[op]
            bad_k = {}
            npath = 0
            for T in self.Ts[:2]:
                I, out = self.run(op, T)
                for s, v in out:
                    npath += 1
                    closed = {e[1] for e in accesses(s, kinds=('CLOSE',))}
                    missing = sorted({'fin', 'out'} - closed)
                    if missing:
                        bad_k.setdefault(tuple(missing), (T, show(v), [str(x) for x in s.trace[-6:]]))
            for missing, (T, rv, path) in sorted(bad_k.items()):
                rec.ob('R15.k', 'R15.k@%s::streams-closed-on-every-path::%s' % (fkey(f), '+'.join(missing)), False, '%s:%s' % (f['file'], f['line']),
                       'T=%d: %s returns %s on a path that has not closed %s' % (T, f['name'], rv, ' and '.join('the input' if m == 'fin' else 'the output' for m in missing)), path=path)
            rec.ob('R15.k', 'R15.k@%s::streams-closed-on-every-path' % fkey(f), not bad_k, '%s:%s' % (f['file'], f['line']),
                   '%s: both streams are closed on each of %d abstract paths (a failing fclose included)' % (op, npath))
        # R15.h: no operation writes the objects its caller owns and will hand to the next operation (key buffer, settings)
        bad = set()
        for T in self.Ts[:2]:
            for op in ('encrypt', 'decrypt', 'verify'):
                I, out = self.run(op, T)
                for s, v in out:
                    for e in s.comps.get('log', ()):
                        if e[0] == 'CALLERWRITE':
                            bad.add((op,) + tuple(e[1:]))
        for op, obj, what, wh, fn in sorted(bad):
            rec.ob('R15.h', 'R15.h@%s::writes-caller-%s' % (fn, obj), False, wh,
                   '%s: %s into the caller\'s %s object: the next operation given the same object starts from different values' % (op, what, obj))
        rec.ob('R15.h', 'R15.h@%s::caller-objects-untouched' % self.D.RCq, not bad, '', 'no operation writes the caller\'s key buffer or settings object')


def _sequence(self):
    """R14.t / R15.e: a second operation in the same process starts its I/O loop from the same loop state as the first."""
    rec, D = self.rec, self.D
    A = D.A if hasattr(D, 'A') else None
    n = 0
    for T in ([4, 3] if 4 <= D.tmax else [D.tmax]):
        firsts = {}
        for op1 in ('encrypt', 'decrypt', 'verify'):
            I, out = self.run(op1, T)
            A = D.A
            for s, v in out:
                inst = s.mem.get(('G:%s::instance' % A.Gq, ()))
                glob = (show(inst) if inst else None, show(s.mem.get((A.live, ()))) if A.live else None,
                        tuple(show(s.mem.get((inst[1], inst[2] + (fld,)), TOP)) for fld in D.io_state_fields()) if inst and inst[0] == 'p' else ())
                firsts.setdefault(glob, (op1, s, s.comps.get('pipe_entry', ())))
        ref = None
        for glob, (op1, s, pe1) in firsts.items():
            if pe1 and ref is None:
                ref = pe1[0]
        for glob, (op1, s, pe1) in sorted(firsts.items(), key=lambda kv: str(kv[0])):
            for op2 in ('encrypt', 'decrypt'):
                f2 = D.ops[op2]
                I2, out2 = D.run_second(op2, T, s)
                for s2, v2 in out2:
                    pe2 = s2.comps.get('pipe_entry', ())
                    if not pe2:
                        continue
                    n += 1
                    ok = ref is not None and pe2[0] == ref
                    rec.ob('R14.t', 'R14.t@%s::io-loop-state-re-established' % fkey(f2), ok, '%s:%s' % (f2['file'], f2['line']),
                           'T=%d: %s after an earlier %s in the same process enters the I/O loop with %s (a first operation: %s)' % (
                               T, op2, op1, dict(pe2[0]), dict(ref) if ref else '?'))
    rec.count('R14.t second-operation pipeline entries', n, 2)
    rec.extra['io_loop_state_fields'] = D.io_state_fields()


def _bounds(self):
    """R11.d: every header read fits the object it is read into, for every thread count."""
    rec, D = self.rec, self.D
    prog = self.prog
    n = 0
    for T in self.Ts:
        for op in ('decrypt', 'verify'):
            f = D.ops[op]
            I, out = self.run(op, T)
            for s, v in out:
                for e in accesses(s):
                    if e[0] != 'R' or e[4][0] != 'loc':
                        continue
                    obj, path = e[4][1], e[4][2]
                    size = e[3]
                    cap = None
                    if path and isinstance(path[-1], int):
                        # element of an array: a record field array or a new[] allocation
                        if len(path) >= 2 and isinstance(path[-2], str):
                            fld = path[-2]
                            for r in prog.records.values():
                                for x in r['fields']:
                                    if x['d'][2:] == fld and prog.type(x['t']).get('k') == 'array':
                                        cap = prog.type(x['t']).get('size', 0) - path[-1]
                        elif len(path) == 1:
                            cnt = s.comps.get(('alloc', obj))
                            if cnt is not None and cnt[0] == 'c':
                                cap = cnt[1] - path[-1]
                    elif not path or isinstance(path[-1], str):
                        cap = 8     # scalar destinations: at most 8 bytes (checked against the declared type below)
                        for r in prog.records.values():
                            for x in r['fields']:
                                if path and x['d'][2:] == path[-1]:
                                    cap = prog.type(x['t']).get('size', 8)
                        if isinstance(obj, tuple) and obj[0] == 'L':
                            cap = 8
                    if cap is None:
                        continue
                    n += 1
                    r = rng(size, s.sym) if is_int(size) else None
                    ok = r is not None and r[1] <= cap
                    rec.ob('R11.d', 'R11.d@%s::read-fits-buffer' % e[6], ok, e[5], 'T=%d %s: read of %s bytes into an object with %s bytes left' % (T, op, show(size), cap))
    rec.count('R11.d header reads', n, 4)


DriverRules.bounds = _bounds
DriverRules.sequence = _sequence
