"""C14 Chunk buffers are handed over exclusively between worker and I/O thread."""
from .common import pipeline_for, combined

LEVEL = 'other'
RULES = ('S-OWN', 'S-ROLE', 'M1', 'R02.d', 'R03.b', 'R03.d', 'R04.d', 'R01.b', 'R03.c', 'R14.t', 'R01.c', 'R10.s', 'R14.s', 'R04.n', 'R02.r', 'R03.f')


def run(prog, rec, tier):
    from . import static_rules as _sr
    _sr.assert_conditions(prog, rec, 'R04.n', 'R04.n@kernel::assert-conditions-have-no-effects', ('kernel', 'main.cpp', 'valget'))
    combined(prog, rec, tier, RULES, driver=('sequence', 'layout', 'reader'), pipe=True, monitor=True, spawn=True, modes=('isolation', 'steps'),
                 explanation='Every read and write of a chunk buffer field, in the worker role and in the I/O role, happens while the '
                 'token value makes that role the exclusive owner of the same index (disjoint ownership sets derived from an inferred '
                 'rely/guarantee pair); token written only under its mutex; INV terminal; worker i uses only buffer i; monotone cursor.')
    # the group a role works on is the one of the current operation: nothing with static storage in the pipeline units (a static
    # local that remembers the first operation's group, say) carries a value from one operation into the next, other than the
    # inventoried singleton / live counter
    from . import static_rules
    static_rules.scoped_statics(prog, rec, 'R14.s', 'R14.s@kernel/multi_aes::roles-share-only-the-group', ('kernel/multi_aes/multi',), 'the worker / I/O code')
