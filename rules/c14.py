"""C14 Chunk buffers are handed over exclusively between worker and I/O thread."""
from .common import pipeline_for, combined

LEVEL = 'other'
RULES = ('S-OWN', 'S-ROLE', 'M1', 'R02.d', 'R03.b', 'R03.d', 'R04.d', 'R01.b', 'R03.c', 'R14.t', 'R01.c', 'R10.s')


def run(prog, rec, tier):
    combined(prog, rec, tier, RULES, driver=('sequence', 'layout', 'reader'), pipe=True, monitor=True, spawn=True, modes=('isolation', 'steps'),
                 explanation='Every read and write of a chunk buffer field, in the worker role and in the I/O role, happens while the '
                 'token value makes that role the exclusive owner of the same index (disjoint ownership sets derived from an inferred '
                 'rely/guarantee pair); token written only under its mutex; INV terminal; worker i uses only buffer i; monotone cursor.')
