"""C07 rules (tier 1): initial values and K table from first principles, padding layout and length encoding of the
finaliser for every residue 0..63 with a symbolic block count, output byte order, the two drivers, and the 64-byte-unit
file buffer (inductive invariant over one call)."""
import math
from wai import interp, models
from wai.facts import AnalysisBroken, walk, strip, loc as nloc
from wai.values import *


def fkey(fn):
    return '%s::%s' % (fn['file'], fn['q'])


# ---- constants derived from the standards' definitions (not copied from the code) ---------------------
def primes(n):
    out, c = [], 2
    while len(out) < n:
        if all(c % p for p in out if p * p <= c):
            out.append(c)
        c += 1
    return out


def isqrt_frac32(p):
    # first 32 bits of the fractional part of sqrt(p)
    v = math.isqrt(p << 64)
    return (v - (math.isqrt(p) << 32)) & 0xffffffff


def icbrt(n):
    x = int(round(n ** (1.0 / 3)))
    while x * x * x > n:
        x -= 1
    while (x + 1) ** 3 <= n:
        x += 1
    return x


def cbrt_frac32(p):
    v = icbrt(p << 96)
    return (v - (icbrt(p) << 32)) & 0xffffffff


SHA256_K = [cbrt_frac32(p) for p in primes(64)]
SHA256_H0 = [isqrt_frac32(p) for p in primes(8)]
# SHA-1 / MD5 initial words: the byte sequences 01 23 45 67 | 89 ab cd ef | fe dc ba 98 | 76 54 32 10 | f0 e1 d2 c3 read little-endian
_seq = bytes([0x01, 0x23, 0x45, 0x67, 0x89, 0xab, 0xcd, 0xef, 0xfe, 0xdc, 0xba, 0x98, 0x76, 0x54, 0x32, 0x10, 0xf0, 0xe1, 0xd2, 0xc3])
SHA1_H0 = [int.from_bytes(_seq[4 * i:4 * i + 4], 'little') for i in range(5)]
MD5_H0 = SHA1_H0[:4]

U8 = {'bits': 8, 'sg': False, 'k': 'int'}
OBJ = ('ext', 'hasher')
MSG = ('ext', 'msg')
OUTB = ('ext', 'digest')



def _has_top(v):
    """True if the value contains an interpreter-made unknown ('top') anywhere."""
    if isinstance(v, tuple):
        if v and v[0] == 'top':
            return True
        return any(_has_top(x) for x in v)
    if isinstance(v, (list, frozenset, set)):
        return any(_has_top(x) for x in v)
    if isinstance(v, dict):
        return any(_has_top(x) for x in v.values())
    return False

class HashRules:
    def __init__(self, prog, rec):
        self.prog, self.rec = prog, rec
        base = [r for r in prog.records.values()
                if sum(1 for m in r['methods'] if m.get('pure')) >= 4 and any(m['n'] == 'getHash' for m in r['methods'])]
        if len(base) != 1:
            raise AnalysisBroken('hash base class not found (%d candidates)' % len(base))
        self.base = base[0]
        self.Bq = self.base['q']
        self.subs = [prog.records[s] for s in prog.all_subclasses(self.Bq) if s in prog.records]
        if len(self.subs) != 3:
            raise AnalysisBroken('expected three hash classes, found %d' % len(self.subs))
        self.total = next((f['d'][2:] for f in self.base['fields'] if prog.type(f['t']).get('k') == 'int' and prog.type(f['t']).get('bits', 0) >= 32), None)
        if not self.total:
            raise AnalysisBroken('bit counter of the hash base class not found')
        self.info = {}

    def methods(self, sub):
        prog = self.prog
        m = {}
        for x in sub['methods']:
            f = prog.functions.get(x['id'])
            if not f:
                continue
            if x['n'] == 'getHash':
                m['compress' if len(f['params']) == 1 else 'final'] = f
            elif x['n'] in ('reset', 'getres', 'gethlen', 'getblen'):
                m[x['n']] = f
        return m

    def kind(self, sub):
        q = sub['q'].lower()
        if 'md5' in q:
            return 'md5'
        if '256' in q:
            return 'sha256'
        return 'sha1'

    def wordfield(self, sub):
        # the chaining array: u32 array field with 4/5/8 elements
        for f in sub['fields']:
            t = self.prog.type(f['t'])
            if t.get('k') == 'array' and t.get('n') in (4, 5, 8) and self.prog.type(t['el']).get('bits') == 32:
                return f['d'][2:], t['n']
        raise AnalysisBroken('chaining array of %s not found' % sub['q'])

    # ------------------------------------------------------------------ R07.a
    def tables(self):
        prog, rec = self.prog, self.rec
        for sub in self.subs:
            m = self.methods(sub)
            kind = self.kind(sub)
            hf, n = self.wordfield(sub)
            I = interp.Interp(prog, models=dict(models.STD_MODELS))
            st = interp.State()
            st.mem[(OBJ, (self.total,))] = TOP
            res = I.run(m['reset'], st, this=P(OBJ, ()))
            rec.saw(I)
            want = {'sha1': SHA1_H0, 'md5': MD5_H0, 'sha256': SHA256_H0}[kind]
            ok = len(res) == 1 and n == len(want)
            got = []
            if ok:
                s = res[0][0]
                got = [s.mem.get((OBJ, (hf, i))) for i in range(n)]
                ok = all(g == C(w) for g, w in zip(got, want)) and s.mem.get((OBJ, (self.total,))) == C(0)
            rec.ob('R07.a', 'R07.a@%s::initial-words' % fkey(m['reset']), ok, '%s:%s' % (m['reset']['file'], m['reset']['line']),
                   '%s: reset() sets the chaining words to %s and the bit counter to 0 (%s)' % (
                       kind, ' '.join('%08x' % w for w in want), 'yes' if ok else 'NO: ' + ' '.join(show(g) if g else '?' for g in got)))
            if kind == 'sha256':
                g = next((x for x in prog.globals.values() if x['q'].startswith(sub['q'] + '::') and isinstance(x.get('value'), list) and len(x['value']) == 64), None)
                okk = g is not None and [v & 0xffffffff for v in g['value']] == SHA256_K
                bad = [i for i in range(64) if g and (g['value'][i] & 0xffffffff) != SHA256_K[i]] if g else []
                rec.ob('R07.a', 'R07.a@%s::sha256-K' % sub['q'], okk, sub['file'], 'K[0..63] = first 32 fractional bits of the cube roots of the first 64 primes (%s)' % (
                    'yes' if okk else 'NO at %s' % bad[:4]))
        rec.count('R07.a reset functions', len(self.subs), 3)

    # ------------------------------------------------------------------ R07.b/c/d finaliser for every residue
    def finaliser(self):
        prog, rec = self.prog, self.rec
        nres = 0
        for sub in self.subs:
            m = self.methods(sub)
            kind = self.kind(sub)
            f = m['final']
            where = '%s:%s' % (f['file'], f['line'])
            bad = {}
            unknown = {}
            for n in range(64):
                blocks = []

                def compress_model(I, st, fr, nd, this, args, an):
                    p = args[0]
                    content = None
                    if p[0] == 'p' and p[2] and isinstance(p[2][-1], int):
                        content = [I.load(st, (p[1], p[2][:-1] + (p[2][-1] + i,))) for i in range(64)]
                    blocks.append(content)
                    # the one-block function counts its 512 bits (as the real one does)
                    tl = (OBJ, (self.total,))
                    old = st.mem.get(tl, TOP)
                    st.mem[tl] = fit(binop('+', old, C(512), st.sym), prog.type(next(x['t'] for x in self.base['fields'] if x['d'][2:] == self.total)), st.sym) if old != TOP else TOP
                    return [(st, ('void',))]

                mdl = dict(models.STD_MODELS)
                mdl[m['compress']['q']] = None
                I = interp.Interp(prog, models=dict(models.STD_MODELS))
                I.models[m['compress']['q']] = compress_model
                # overloads share a qualified name: dispatch on arity
                cm = compress_model

                def dispatch_model(I2, st, fr, nd, this, args, an, _f=f, _cm=cm):
                    if len(args) == 1:
                        return _cm(I2, st, fr, nd, this, args, an)
                    return None
                I.models[m['compress']['q']] = dispatch_model
                I.concrete_loops = True
                st = interp.State()
                st.sym['nb'] = (0, 1 << 54)
                st.mem[(OBJ, (self.total,))] = L(0, {'nb': 512})
                st.mem[(OBJ, ('$dyn',))] = ('type', sub['q'])
                for i in range(64):
                    st.sym['m%d' % i] = (0, 255)
                    st.mem[(MSG, (i,))] = sym('m%d' % i)
                res = I.run(f, st, this=P(OBJ, ()), args=[P(MSG, (0,)), C(n)])
                rec.saw(I)
                nres += 1
                bitlen = L(8 * n, {'nb': 512})
                want_blocks = 1 if n < 56 else 2
                ok = len(res) == 1 and len(blocks) == want_blocks and all(b is not None for b in blocks)
                why = ''
                if not ok:
                    why = '%d block(s) compressed, expected %d' % (len(blocks), want_blocks)
                else:
                    flat = [x for b in blocks for x in b]
                    s = res[0][0]
                    for i in range(64 * want_blocks):
                        if i < n:
                            w = sym('m%d' % i)
                        elif i == n:
                            w = C(0x80)
                        elif i < 64 * want_blocks - 8:
                            w = C(0)
                        else:
                            j = i - (64 * want_blocks - 8)
                            kk = (7 - j) if kind != 'md5' else j
                            # same engine operations as a (u8)(bitlen >> 8k) in 64-bit arithmetic: one canonical form
                            w = self.norm_byte(fit(binop('>>', bitlen, C(8 * kk), s.sym), U8, s.sym), s.sym)
                        g = self.norm_byte(flat[i], s.sym)
                        if g != w:
                            ok = False
                            why = 'byte %d of the padded message is %s, standard says %s' % (i, show(flat[i]), show(w))
                            # a byte the interpreter lost (unknown, or a non-integer left by a library container or algorithm outside its model) is not a wrong byte:
                            # the residue is undecided, not a violation (the corrected form of seed C02-r7-change1 must not alarm)
                            if (_has_top(flat[i]) or flat[i][0] in ('p', 'ptop', 'opaque', 'fn', 'null')):
                                ok = None
                            break
                if ok is None:
                    unknown[n] = why
                elif not ok:
                    bad[n] = why
                if I.unmodelled:
                    rec.broke('unmodelled construct in finaliser of %s: %s' % (sub['q'], I.unmodelled[0]))
            okall = not bad
            if okall and unknown:
                okall = None
            first = sorted(bad)[:1] or sorted(unknown)[:1]
            bad = bad or unknown
            rec.ob('R07.d', 'R07.d@%s::padding-and-length-all-residues' % fkey(f), okall, where,
                   '%s: for every final-block size 0..63 and symbolic block count the padded message is msg || 0x80 || 0* || 64-bit %s-endian bit length (%s)' % (
                       kind, 'little' if kind == 'md5' else 'big',
                       'yes, 64 residues' if okall else ('NO' if okall is False else 'UNDECIDED') + ' for %d residue(s), e.g. n=%d: %s' % (len(bad), first[0], bad[first[0]])))
        rec.count('R07.d finaliser evaluations', nres, 192)

    def norm_byte(self, v, symr):
        if v[0] == 'shr' and v[2] % 8 == 0:
            r = rng(v, symr)
            if r is not None and r[1] <= 255:
                v = ('byte', v[1], v[2] // 8)
        elif v[0] == 'l':
            r = rng(v, symr)
            if r is not None and 0 <= r[0] and r[1] <= 255 and not pure_byte_sym(v, symr):
                v = ('byte', v, 0)
        if v[0] == 'byte' and v[1][0] in ('l', 'c'):
            # one canonical form for "byte i of V": while V = 256*V' + r with a constant r in [0,256), byte i of V is byte i-1 of V'
            V, i = v[1], v[2]
            while i > 0:
                pa = lin_parts(V)
                if pa is None or any(c % 256 for c in pa[1].values()) or pa[0] < 0:
                    break
                V = L(pa[0] // 256, {s_: c // 256 for s_, c in pa[1].items()})
                i -= 1
            v = ('byte', V, i)
        return v

    # ------------------------------------------------------------------ R07.f output order
    def output(self):
        prog, rec = self.prog, self.rec
        for sub in self.subs:
            m = self.methods(sub)
            kind = self.kind(sub)
            hf, n = self.wordfield(sub)
            f = m['getres']
            I = interp.Interp(prog, models=dict(models.STD_MODELS))
            I.concrete_loops = True
            st = interp.State()
            for i in range(n):
                st.sym['h%d' % i] = (0, (1 << 32) - 1)
                st.mem[(OBJ, (hf, i))] = sym('h%d' % i)
            res = I.run(f, st, this=P(OBJ, ()), args=[P(OUTB, (0,))])
            rec.saw(I)
            ok = len(res) == 1
            det = ''
            if ok:
                s = res[0][0]
                for i in range(4 * n):
                    g = self.norm_byte(s.mem.get((OUTB, (i,)), TOP), s.sym)
                    k = (3 - i % 4) if kind != 'md5' else (i % 4)
                    w = ('byte', sym('h%d' % (i // 4)), k)
                    if g == sym('h%d' % (i // 4)) and False:
                        pass
                    if g != w:
                        ok = False
                        det = 'digest byte %d is %s, standard says %s' % (i, show(g), show(w))
                        # written, but with a value the interpreter lost (library call outside the model): undecided, as in R07.d;
                        # a byte that is never written stays a violation
                        raw = s.mem.get((OUTB, (i,)))
                        if raw is not None and (_has_top(raw) or raw[0] in ('p', 'ptop', 'opaque', 'fn', 'null')):
                            ok = None
                        break
                extra = [k for k in s.mem if k[0] == OUTB and isinstance(k[1][0], int) and k[1][0] >= 4 * n]
                if extra:
                    ok = False
                    det = 'writes beyond the digest length'
            if ok is None:
                det = 'UNDECIDED: ' + det
            rec.ob('R07.f', 'R07.f@%s::digest-byte-order' % fkey(f), ok, '%s:%s' % (f['file'], f['line']),
                   '%s: %d digest bytes are the chaining words in %s-endian order (%s)' % (kind, 4 * n, 'little' if kind == 'md5' else 'big', 'yes' if ok else ('NO: ' if ok is False else '') + det))

    # ------------------------------------------------------------------ R07.e drivers
    def drivers(self):
        prog, rec = self.prog, self.rec
        fs = {m['n']: prog.functions[m['id']] for m in self.base['methods'] if m['id'] in prog.functions}
        gs, gf = fs.get('getStringHash'), fs.get('getFileHash')
        if not gs or not gf:
            raise AnalysisBroken('hash drivers not found')
        sub = self.subs[0]
        ms = self.methods(sub)
        # ---- getStringHash for every residue and block counts 0..3, plus the inductive step of its block loop
        for q in range(0, 4):
            bad = []
            for r in range(64):
                ev = []

                def mdl_hash(I, st, fr, nd, this, args, an):
                    ev.append(('C' if len(args) == 1 else 'F',) + tuple(args))
                    return [(st, ('void',))]

                def mdl_reset(I, st, fr, nd, this, args, an):
                    ev.append(('RESET',))
                    return [(st, ('void',))]

                def mdl_res(I, st, fr, nd, this, args, an):
                    ev.append(('RES',) + tuple(args))
                    return [(st, ('void',))]
                I = interp.Interp(prog, models=dict(models.STD_MODELS))
                I.models[self.Bq + '::getHash'] = mdl_hash
                I.models[self.Bq + '::reset'] = mdl_reset
                I.models[self.Bq + '::getres'] = mdl_res
                I.concrete_loops = True
                st = interp.State()
                length = 64 * q + r
                res = I.run(gs, st, this=P(OBJ, ()), args=[P(MSG, (0,)), C(length), P(OUTB, (0,))])
                want = [('RESET',)] + [('C', P(MSG, (64 * i,))) for i in range(q)] + [('F', P(MSG, (64 * q,)), C(r)), ('RES', P(OUTB, (0,)))]
                if len(res) != 1 or ev != want:
                    bad.append((r, ev[:6]))
                rec.saw(I)
            rec.ob('R07.e', 'R07.e@%s::string-driver-blocks-%d' % (fkey(gs), q), not bad, '%s:%s' % (gs['file'], gs['line']),
                   'length 64*%d+r, r=0..63: reset, %d full blocks at 0,64,.. then finaliser on r bytes at 64*%d, then result (%s)' % (
                       q, q, q, 'yes' if not bad else 'NO for r=%s: %s' % (bad[0][0], bad[0][1])))
        self.string_loop_induction(gs)
        # ---- getFileHash: every 64-byte unit is compressed, the first short unit goes to the finaliser, then stop
        ev = []

        def mdl_read(I, st, fr, nd, this, args, an):
            k = st.comps.get('reads', 0)
            st.comps['reads'] = k + 1
            s2 = st.copy()
            ev_ = ('READ', args[0])
            log2(st, ev_ + ('full',))
            log2(s2, ev_ + ('short',))
            s2.sym['$r%d' % k] = (0, 63)
            return [(st, C(64)), (s2, sym('$r%d' % k))]

        def log2(st, e):
            st.comps['hlog'] = st.comps.get('hlog', ()) + (e,)

        def mdl_hash2(I, st, fr, nd, this, args, an):
            log2(st, ('C' if len(args) == 1 else 'F',) + tuple(args))
            return [(st, ('void',))]

        def mdl_reset2(I, st, fr, nd, this, args, an):
            log2(st, ('RESET',))
            return [(st, ('void',))]

        def mdl_res2(I, st, fr, nd, this, args, an):
            log2(st, ('RES',) + tuple(args))
            return [(st, ('void',))]
        I = interp.Interp(prog, models=dict(models.STD_MODELS))
        I.models[self.Bq + '::getHash'] = mdl_hash2
        I.models[self.Bq + '::reset'] = mdl_reset2
        I.models[self.Bq + '::getres'] = mdl_res2
        I.models['buffer64::read_buffer64'] = mdl_read
        I.models['filebuffer64::read_buffer64'] = mdl_read

        class Cut:
            """Explore the loop up to 3 full units: the loop body does not depend on the iteration count."""
            def loop_hook(self, I, n, pending, fr, init, cond, inc, body, do_first):
                return None
        st = interp.State()
        st.comps['hlog'] = ()
        # bound the exploration: after 3 full reads force a short one (the body is iteration-independent)
        orig = mdl_read

        def mdl_read_b(I, st, fr, nd, this, args, an):
            r = orig(I, st, fr, nd, this, args, an)
            if st.comps.get('reads', 0) > 3:
                return r[1:]
            return r
        I.models['buffer64::read_buffer64'] = mdl_read_b
        I.models['filebuffer64::read_buffer64'] = mdl_read_b
        I.concrete_loops = True
        res = I.run(gf, st, this=P(OBJ, ()), args=[P(('ext', 'buf'), ()), P(OUTB, (0,)), ('opaque', 'cb')])
        rec.saw(I)
        ok = len(res) >= 2
        det = ''
        for s, v in res:
            lg = s.comps.get('hlog', ())
            if not lg or lg[0] != ('RESET',) or lg[-1][0] != 'RES' or lg[-1][1] != P(OUTB, (0,)):
                ok, det = False, 'log %s' % (lg[:6],)
                break
            body = lg[1:-1]
            k = 0
            good = True
            while k < len(body):
                e = body[k]
                if e[0] != 'READ' or k + 1 >= len(body):
                    good = False
                    break
                nx = body[k + 1]
                if e[2] == 'full':
                    good = nx[0] == 'C' and nx[1] == e[1]
                else:
                    good = nx[0] == 'F' and nx[1] == e[1] and k + 2 == len(body) and nx[2][0] == 'l'
                if not good:
                    break
                k += 2
            if not good or body[-1][0] != 'F':
                ok, det = False, 'unit sequence %s' % ([x[0] for x in body],)
                break
        rec.ob('R07.e', 'R07.e@%s::file-driver' % fkey(gf), ok, '%s:%s' % (gf['file'], gf['line']),
               'reset; every 64-byte unit compressed from the block it was read into; the first short unit goes to the finaliser with its size; then result (%s)' % (
                   'yes, %d paths' % len(res) if ok else 'NO: ' + det))

    def string_loop_induction(self, gs):
        """For every k: at the head of iteration k of the block loop of the string driver the loop-carried locals are the
        iteration-0 values advanced by k constant steps, and the body compresses exactly the block at offset 64k.
        The steps are learnt from the code (one symbolic iteration), then checked inductively at symbolic k."""
        prog, rec = self.prog, self.rec
        top = gs['body'].get('c', [])
        li = next((i for i, n in enumerate(top) if n['k'] in ('ForStmt', 'WhileStmt')), None)
        key = 'R07.e@%s::string-driver-loop-inductive' % fkey(gs)
        where = '%s:%s' % (gs['file'], gs['line'])
        if li is None:
            rec.extra['string_loop_induction'] = 'skipped: block loop is not a top-level for/while of the string driver'
            return
        loop = top[li]
        ev = []

        def mdl_hash(I, st, fr, nd, this, args, an):
            ev.append(tuple(args))
            return [(st, ('void',))]

        def mdl_void(I, st, fr, nd, this, args, an):
            return [(st, ('void',))]
        I = interp.Interp(prog, models=dict(models.STD_MODELS))
        I.models[self.Bq + '::getHash'] = mdl_hash
        I.models[self.Bq + '::reset'] = mdl_void
        I.name_intervals = False
        I._decl_is_ref = {}
        I.index_ref_decls()
        fr = I.start_frame(gs)
        fr.this = (('L', '$this', ()), ())
        st = interp.State()
        st.mem[fr.this] = P(OBJ, ())
        # the length ranges over everything its parameter type can hold: 64 + m + 64k up to the largest value of the type
        lbits = (prog.type(gs['params'][1]['t']) or {}).get('bits') or 32
        lmax = (1 << min(lbits, 62)) - 1
        st.sym['m'] = (0, 1 << 30)
        st.sym['k'] = (0, max(1 << 24, (lmax - 64 - (1 << 30)) // 64))

        def undecided(msg):
            # a conversion that cannot hold every length and then decides the loop is the reason, and a violation
            if I.trunc_decisions:
                d = I.trunc_decisions[0]
                rec.ob('R07.e', key, False, d['decided_at'],
                       'the message length (any value up to %d) is %s, range [%d, %d], converted to a %d-bit %s type at %s and the converted value decides %s: '
                       'for the lengths beyond that type the blocks hashed are not the message' % (
                           lmax, d['expr'], d['range'][0], d['range'][1], d['bits'], 'signed' if d['signed'] else 'unsigned', d['where'], d['decided_at']))
            else:
                rec.ob('R07.e', key, None, where, msg)
        length = L(64, {'m': 1, 'k': 64})
        for p, v in zip(gs['params'], [P(MSG, (0,)), length, P(OUTB, (0,))]):
            st.mem[fr.local(p['id'])] = v
        I.frames.append(fr)
        try:
            cur = [st]
            for n in top[:li]:
                cur = I.exec(n, cur, fr).norm
            if loop['k'] == 'ForStmt' and loop.get('init') is not None:
                cur = I.exec(loop['init'], cur, fr).norm
            if len(cur) != 1:
                undecided('state before the block loop is not unique (%d)' % len(cur))
                return
            head0 = cur[0]

            def one_iteration(s0):
                del ev[:]
                s = s0.copy()
                ins = [x for x, b in I.cond(loop['cond'], s, fr) if b] if loop.get('cond') else [s]
                if len(ins) != 1:
                    return None, None
                o = I.exec(loop['body'], ins, fr)
                after = o.norm + o.cont
                if loop.get('inc') is not None:
                    nxt = []
                    for x in after:
                        nxt += [s2 for s2, _ in I.ev(loop['inc'], x, fr)]
                    after = nxt
                if len(after) != 1:
                    return None, None
                return after[0], list(ev)
            s1, calls0 = one_iteration(head0)
            if s1 is None:
                undecided('one symbolic iteration of the block loop is not a single path')
                return

            def delta(v0, v1):
                if v0 == v1:
                    return 0
                if is_int(v0) and is_int(v1):
                    d = add(v1, v0, head0.sym, -1)
                    return d[1] if d[0] == 'c' else None
                if v0[0] == 'p' and v1[0] == 'p' and v0[1] == v1[1] and v0[2][:-1] == v1[2][:-1] and v0[2] and v1[2]:
                    x, y = v0[2][-1], v1[2][-1]
                    if isinstance(x, str) or isinstance(y, str):
                        return None
                    d = add(C(y) if isinstance(y, int) else y, C(x) if isinstance(x, int) else x, head0.sym, -1)
                    return d[1] if d[0] == 'c' else None
                return None

            def advance(v, d, times):
                if d == 0:
                    return v
                step = mul(C(d), times, head0.sym)
                if is_int(v):
                    return add(v, step, head0.sym)
                last = v[2][-1]
                nv = add(C(last) if isinstance(last, int) else last, step, head0.sym)
                return P(v[1], v[2][:-1] + ((nv[1] if nv[0] == 'c' else nv),))
            deltas = {}
            for kk in set(head0.mem) | set(s1.mem):
                if not (isinstance(kk[0], tuple) and kk[0][0] == 'L' and kk[0][2] == ()):
                    continue
                v0, v1 = head0.mem.get(kk), s1.mem.get(kk)
                if v0 is None or v1 is None:
                    continue
                d = delta(v0, v1)
                if d is None:
                    undecided('loop-carried local %s does not advance by a constant step (%s -> %s)' % (kk[0][1], show(v0), show(v1)))
                    return
                deltas[kk] = d
            headk = head0.copy()
            for kk, d in deltas.items():
                headk.mem[kk] = advance(head0.mem[kk], d, sym('k'))
            sk1, callsk = one_iteration(headk)
            # exit step: with length = 64k + r (r < 64) the loop stops after k iterations and what follows it
            # finalises exactly the r bytes at offset 64k
            exit_ok, exit_det = None, ''
            st2 = interp.State()
            st2.mem[fr.this] = P(OBJ, ())
            st2.sym['r'] = (0, 63)
            st2.sym['k'] = (0, max(1 << 24, (lmax - 63) // 64))
            for p, v in zip(gs['params'], [P(MSG, (0,)), L(0, {'r': 1, 'k': 64}), P(OUTB, (0,))]):
                st2.mem[fr.local(p['id'])] = v
            cur = [st2]
            for n in top[:li]:
                cur = I.exec(n, cur, fr).norm
            if loop['k'] == 'ForStmt' and loop.get('init') is not None:
                cur = I.exec(loop['init'], cur, fr).norm
            if len(cur) == 1:
                hk = cur[0]
                for kk, d in deltas.items():
                    if kk in hk.mem:
                        hk.mem[kk] = advance(hk.mem[kk], d, sym('k'))
                outs = [x for x, b in I.cond(loop['cond'], hk, fr) if not b] if loop.get('cond') else []
                stays = [x for x, b in I.cond(loop['cond'], hk.copy(), fr) if b] if loop.get('cond') else []
                if len(outs) == 1 and not stays:
                    del ev[:]
                    tail_calls = []

                    def mdl_res(I2, st3, fr3, nd, this, args, an):
                        tail_calls.append(('RES',) + tuple(args))
                        return [(st3, ('void',))]
                    I.models[self.Bq + '::getres'] = mdl_res
                    c2 = outs
                    for n in top[li + 1:]:
                        c2 = I.exec(n, c2, fr).norm
                    exit_ok = len(ev) == 1 and ev[0] == (P(MSG, (L(0, {'k': 64}),)), sym('r')) and tail_calls == [('RES', P(OUTB, (0,)))]
                    exit_det = 'after the loop: %s then %s' % ([tuple(show(a) for a in e) for e in ev[:2]], [tuple(show(a) for a in e[1:]) for e in tail_calls[:2]])
                else:
                    exit_det = 'loop condition at iteration k with remaining r<64 is not decided false'
        finally:
            I.frames.pop()
        rec.ob('R07.e', 'R07.e@%s::string-driver-exit-step' % fkey(gs), exit_ok, nloc(loop),
               'for every k and r < 64, length 64k+r: the loop ends after k iterations and the finaliser gets exactly r bytes at offset 64k, then the result is read (%s)' % (
                   'yes' if exit_ok else 'NO: ' + exit_det))
        if I.trunc_decisions:
            undecided('')
            return
        ok = sk1 is not None and callsk is not None and len(callsk) == 1 and callsk[0] == (P(MSG, (L(0, {'k': 64}),)),)
        det = ''
        if ok:
            for kk, d in deltas.items():
                want = advance(headk.mem[kk], d, C(1))
                if sk1.mem.get(kk) != want:
                    ok = False
                    det = 'local %s: %s instead of %s' % (kk[0][1], show(sk1.mem.get(kk)), show(want))
        else:
            det = 'calls at iteration k: %s' % ([tuple(show(a) for a in e) for e in (callsk or [])][:2],)
        rec.ob('R07.e', key, ok, nloc(loop),
               'for every k and every remaining >= 64: the loop-carried locals advance by constant steps %s and iteration k compresses exactly the block at offset 64k (%s)' % (
                   sorted({d for d in deltas.values() if d}), 'yes' if ok else 'NO: ' + det))

# ------------------------------------------------------------------------------------------------
# R07.e (file buffer): inductive invariant of the 64-byte-unit buffer, one call at a time
FB = ('ext', 'fbuf')
BLK = ('ext', 'outblock')
PFX = ('ext', 'prefix')


def _fb_fields(prog):
    r = prog.records.get('filebuffer64')
    if r is None:
        cands = [x for x in prog.records.values() if any(b['q'] == 'buffer64' for b in x['bases'])]
        if len(cands) != 1:
            raise AnalysisBroken('file buffer class not found')
        r = cands[0]
    f = {x['n']: x['d'][2:] for x in r['fields']}
    need = {'b', 'extra_entry', 'has_extra', 'total', 'now', 'tail', 'fp'}
    if set(f) != need:
        raise AnalysisBroken('file buffer representation changed (fields %s): the unit-buffer invariant rule does not apply' % sorted(f))
    return r, f


def buffer_rules(self):
    prog, rec = self.prog, self.rec
    R, F = _fb_fields(prog)
    Rq = R['q']
    cands = [g for g in prog.globals.values() if g['q'].startswith(Rq + '::') and isinstance(g.get('value'), int) and g.get('const')]
    H = next((g['value'] for g in cands if g['value'] > 64 and g['value'] % 64 and False), None) or next((g['value'] for g in sorted(cands, key=lambda g: g['value']) if g['value'] > 64), None)
    if not H:
        raise AnalysisBroken('unit count constant of the file buffer not found')
    cap = H * 64
    ctor = next(f for f in prog.functions.values() if f.get('ctor') and f.get('rec') == Rq)
    rd = next(prog.functions[m['id']] for m in R['methods'] if m['n'] == 'read_buffer64' and m['id'] in prog.functions)
    where = '%s:%s' % (rd['file'], rd['line'])

    def fread_part(I, st, fr, n, dst, sz, cnt, f, root):
        if cnt != C(cap) or sz != C(1):
            return None
        cases = [('sum=0', C(0), {}), ('0<sum<64', sym('$t'), {'$t': (1, 63)}),
                 ('64<=sum<cap, aligned', L(0, {'$q': 64}), {'$q': (1, H - 1)}),
                 ('64<=sum<cap, unaligned', L(0, {'$q': 64, '$t': 1}), {'$q': (1, H - 1), '$t': (1, 63)}),
                 ('sum=cap', C(cap), {})]
        out = []
        for nm, got, syms in cases:
            s = st.copy()
            s.sym.update(syms)
            s.comps['fill'] = nm
            s.mem[(('aux', 'sum'), ())] = got
            s.mem[(('aux', 'filldst'), ())] = dst
            s.comps['nfill'] = s.comps.get('nfill', 0) + 1
            models.set_fpos(s, root, TOP)
            out.append((s, got))
        return out

    LASTI = [None]

    class Cp:
        def on_memcpy(self, I, st, node, dst, src, size):
            st.comps['copies'] = st.comps.get('copies', ()) + ((dst, src, size),)

    def run(fn, st, args):
        I = interp.Interp(prog, listeners=[Cp()], models=dict(models.STD_MODELS))
        LASTI[0] = I
        I.fread_override = fread_part
        I.concrete_loops = True
        st.comps.setdefault('copies', ())
        r = I.run(fn, st, this=P(FB, ()), args=args)
        rec.saw(I)
        for what, wh in I.unmodelled:
            rec.broke('unmodelled construct in file buffer: %s at %s' % (what, wh))
        return r

    def fld(s, name):
        return s.mem.get((FB, (F[name],)))

    def consistent(s, sumv):
        """64*total + tail == bytes of the last fill, tail in [0,63], total <= H."""
        tot, tl = fld(s, 'total'), fld(s, 'tail')
        if tot is None or tl is None or not is_int(tot) or not is_int(tl):
            return False
        v = binop('+', binop('*', tot, C(64), s.sym), tl, s.sym)
        rt = rng(tl, s.sym)
        rtt = rng(tot, s.sym)
        return compare('==', v, sumv, s.sym) is True and rt is not None and 0 <= rt[0] and rt[1] <= 63 and rtt is not None and rtt[1] <= H

    # ---- constructor: representation fingerprint and post-state
    for with_pfx in (True, False):
        st = interp.State()
        models.set_fpos(st, 'f', sym('p0'))
        st.sym['p0'] = (0, 1 << 40)
        for i in range(64):
            st.sym['x%d' % i] = (0, 255)
            st.mem[(PFX, (i,))] = sym('x%d' % i)
        res = run(ctor, st, [P(('file', 'f'), ()), ('opaque', 'cb'), P(PFX, (0,)) if with_pfx else NULL])
        okc = len(res) == 5
        for s, v in res:
            sumv = s.mem.get((('aux', 'sum'), ()))
            dstv = s.mem.get((('aux', 'filldst'), ()))
            good = (sumv is not None and consistent(s, sumv) and fld(s, 'now') == C(0) and fld(s, 'has_extra') == C(1 if with_pfx else 0)
                    and dstv is not None and dstv[0] == 'p' and dstv[1] == FB and dstv[2][0] == F['b'] and all(x == 0 for x in dstv[2][1:]))
            if with_pfx:
                good = good and all(s.mem.get((FB, (F['extra_entry'], i))) == sym('x%d' % i) for i in range(64))
            okc = okc and good
        lost = [w for w in LASTI[0].const_wraps if w[1] in (ctor['q'], rd['q'])] if not okc else []
        for wh_, fn_, val_, got_, bits_, sg_ in lost:
            rec.ob('R07.e', 'R07.e@%s::buffer-constructor' % fkey(ctor), False, wh_,
                   'a completely filled buffer (%d bytes read, %d units): the value %d is stored through an implicit conversion to a %d-bit %s type and becomes %s' % (
                       cap, H, val_, bits_, 'signed' if sg_ else 'unsigned', got_))
        if lost:
            return
        if not okc:
            # not the representation this rule knows: decline rather than misjudge
            raise AnalysisBroken('file buffer constructor does not establish (now=0, 64*total+tail=bytes read into b, prefix copy): '
                                 'representation changed, unit-buffer rule not applicable')
        rec.ob('R07.e', 'R07.e@%s::buffer-constructor' % fkey(ctor), True, '%s:%s' % (ctor['file'], ctor['line']),
               'constructor (prefix %s): reads up to %d bytes into b, now=0, 64*total+tail = bytes read, prefix block copied' % ('given' if with_pfx else 'absent', cap))

    def prestate(rel, extra):
        st = interp.State()
        models.set_fpos(st, 'f', TOP)
        st.mem[(FB, (F['has_extra'],))] = C(1 if extra else 0)
        st.mem[(FB, (F['fp'],))] = P(('file', 'f'), ())
        for i in range(64):
            st.sym['x%d' % i] = (0, 255)
            st.mem[(FB, (F['extra_entry'], i))] = sym('x%d' % i)
        st.sym['T'] = (0, H)
        st.sym['d'] = (1, H)
        st.sym['tl'] = (0, 63)
        if rel == 'lt':         # now < total <= H
            st.sym['n'] = (0, H - 1)
            st.sym['d'] = (1, H)
            st.mem[(FB, (F['total'],))] = L(0, {'n': 1, 'd': 1})
            st.mem[(FB, (F['now'],))] = sym('n')
            st.mem[(FB, (F['tail'],))] = sym('tl')
        elif rel == 'eq-short':  # now == total < H : the partial unit
            st.sym['T'] = (0, H - 1)
            st.mem[(FB, (F['total'],))] = sym('T')
            st.mem[(FB, (F['now'],))] = sym('T')
            st.mem[(FB, (F['tail'],))] = sym('tl')
        elif rel == 'eq-full':   # now == total == H : buffer consumed, refill
            st.mem[(FB, (F['total'],))] = C(H)
            st.mem[(FB, (F['now'],))] = C(H)
            st.mem[(FB, (F['tail'],))] = C(0)
        return st

    skipped = []

    def blk_is(s, vals):
        return all(s.mem.get((BLK, (i,))) == v for i, v in enumerate(vals))

    # ---- prefix block delivered first and once (by content: how it is copied does not matter)
    res = run(rd, prestate('lt', True), [P(BLK, (0,)), ('opaque', 'cb')])
    ok = len(res) == 1
    for s, v in res:
        ok = ok and v == C(64) and fld(s, 'has_extra') == C(0) and blk_is(s, [sym('x%d' % i) for i in range(64)]) \
            and fld(s, 'now') == sym('n') and s.comps.get('nfill', 0) == 0
    rec.ob('R07.e', 'R07.e@%s::prefix-block-first-and-once' % fkey(rd), ok, where, 'with a pending prefix block the call returns exactly that block (64 bytes, by content), clears the flag, does not advance or refill')

    # ---- a full unit: now < total
    pre = prestate('lt', False)
    for j in range(64):
        pre.sym['u%d' % j] = (0, 255)
        pre.mem[(FB, (F['b'], sym('n'), j))] = sym('u%d' % j)
    pre.abs = frozenset(k for k in pre.mem if any(isinstance(x, tuple) for x in k[1]))
    res = run(rd, pre, [P(BLK, (0,)), ('opaque', 'cb')])
    ok = len(res) >= 1
    shape = True
    for s, v in res:
        now0 = sym('n')
        ok = ok and v == C(64) and fld(s, 'now') == add(now0, C(1), s.sym) and fld(s, 'total') == L(0, {'n': 1, 'd': 1}) and fld(s, 'tail') == sym('tl') and s.comps.get('nfill', 0) == 0
        if not blk_is(s, [sym('u%d' % j) for j in range(64)]):
            shape = False
    if shape:
        rec.ob('R07.e', 'R07.e@%s::full-unit' % fkey(rd), ok, where, 'now < total: returns the 64 bytes of unit b[now] (by content), now+1, no refill, total/tail unchanged')
    else:
        skipped.append('full-unit (storage of b is not [units][64] with unit-wise copy)')
        rec.ob('R07.e', 'R07.e@%s::full-unit-bookkeeping' % fkey(rd), ok, where, 'now < total: returns 64, now+1, no refill, total/tail unchanged (content left to R07.g: other storage layout)')

    # ---- the partial unit: now == total < H
    res = run(rd, prestate('eq-short', False), [P(BLK, (0,)), ('opaque', 'cb')])
    ok = len(res) >= 1
    for s, v in res:
        ok = ok and compare('==', v, sym('tl'), s.sym) is True and s.comps.get('nfill', 0) == 0 and fld(s, 'tail') == C(0)
    rec.ob('R07.e', 'R07.e@%s::partial-unit-once' % fkey(rd), ok, where,
           'now == total < units: returns tail bytes without refilling (short fill = end of file) and zeroes tail so they are handed out once')

    # ---- refill: now == total == H
    res = run(rd, prestate('eq-full', False), [P(BLK, (0,)), ('opaque', 'cb')])
    ok = len(res) >= 5
    det = ''
    for s, v in res:
        fill = s.comps.get('fill')
        sumv = s.mem.get((('aux', 'sum'), ()))
        cps = s.comps.get('copies', ())
        fd = s.mem.get((('aux', 'filldst'), ()))
        good = s.comps.get('nfill', 0) == 1 and sumv is not None and fd is not None and fd[0] == 'p' and fd[1] == FB and fd[2][0] == F['b'] and all(x == 0 for x in fd[2][1:])
        if good:
            q = binop('>>', sumv, C(6), s.sym)
            has_unit = compare('>=', q, C(1), s.sym)
            if has_unit is True:
                good = v == C(64) and fld(s, 'now') == C(1) and consistent(s, sumv)
            elif has_unit is False:
                t = binop('&', sumv, C(63), s.sym)
                good = compare('==', v, t, s.sym) is True and fld(s, 'total') == C(0)
            else:
                good = False
        if not good:
            ok = False
            det = 'fill case %s: returns %s, now=%s total=%s tail=%s' % (fill, show(v), *(show(fld(s, x)) if fld(s, x) else '?' for x in ('now', 'total', 'tail')))
    rec.ob('R07.e', 'R07.e@%s::refill' % fkey(rd), ok, where,
           'buffer consumed (now == total == units): one fread into b, then the first unit (64 bytes, now=1, 64*total+tail = bytes read) or, when fewer than 64 bytes came, exactly those bytes (%s)' % (
               'yes, %d fill cases' % len(res) if ok else 'NO: ' + det))
    if skipped:
        rec.extra['buffer_invariant_rule_skipped_content_checks'] = skipped
    rec.count('R07.e buffer cases', 6, 6)


HashRules.buffer = buffer_rules


# ------------------------------------------------------------------------------------------------
# R07.g: behaviour of the file buffer object for a reduced unit count (representation independent)
def buffer_simulation(self, tier='quick'):
    """The buffer object is driven exactly as the file-hash driver drives it (construct, then read until the first short
    unit) over an abstract file of n named bytes, with the unit-count constant overridden by 2 (capacity 128 bytes) so that
    every refill boundary is within reach.  The delivered chunks must be: prefix block (if any), then the file bytes in order,
    all chunks 64 bytes except the last.  Decided for every n in the explored range; the code is assumed parametric in the
    constant (it appears only as an array bound, in the refill test and in the read size)."""
    prog, rec = self.prog, self.rec
    R = prog.records.get('filebuffer64')
    if R is None:
        cands = [x for x in prog.records.values() if any(b['q'] == 'buffer64' for b in x['bases'])]
        if len(cands) != 1:
            raise AnalysisBroken('file buffer class not found')
        R = cands[0]
    Rq = R['q']
    consts = [g for g in prog.globals.values() if g['q'].startswith(Rq + '::') and isinstance(g.get('value'), int) and g.get('const')]
    names = {g['q'] for g in consts}
    base = [g for g in consts if g['value'] > 64 and not any(
        (x.get('q') in names or (x.get('d') or '')[2:] in names) for x in walk(g.get('init') or {}) if x.get('k') in ('DeclRefExpr', 'MemberExpr'))]
    if len(base) != 1:
        raise AnalysisBroken('unit count constant of the file buffer not identified (%s)' % sorted(names))
    cname = base[0]['q']
    H = 2
    cap = H * 64
    ctor = next(f for f in prog.functions.values() if f.get('ctor') and f.get('rec') == Rq)
    rd = next(prog.functions[m['id']] for m in R['methods'] if m['n'] == 'read_buffer64' and m['id'] in prog.functions)
    where = '%s:%s' % (rd['file'], rd['line'])
    lens = list(range(0, 3 * cap + 72)) if tier == 'thorough' else sorted(set(
        list(range(0, 70)) + list(range(cap - 66, cap + 70)) + list(range(2 * cap - 66, 2 * cap + 70)) + list(range(3 * cap - 2, 3 * cap + 3))))
    bad = []
    runs = 0
    FBO = ('ext', 'fbuf')
    for with_pfx in (True, False):
        for n in lens:
            fsym = [sym('f%d' % i) for i in range(n)]

            def fread_file(I, st, fr, nd, dst, sz, cnt, f, root):
                pos = st.comps.get(('cfpos', root), 0)
                want = cnt[1] * sz[1] if cnt[0] == 'c' and sz[0] == 'c' else None
                if want is None or dst[0] != 'p' or not dst[2] or not isinstance(dst[2][-1], int):
                    return None
                k = max(0, min(want, n - pos))
                es = I.elem_size_hint(nd['args'][0])
                base = dst[2][:-1]
                r0 = dst[2][-1]
                for t in range(k):
                    if es > 1:
                        st.mem[(dst[1], base + (r0 + t // es, t % es))] = fsym[pos + t]
                    else:
                        q = I.ptr_add(st, dst, C(t))        # byte t from dst (rows of a two-dimensional member array carry over)
                        st.mem[(q[1], q[2])] = fsym[pos + t]
                st.comps[('cfpos', root)] = pos + k
                # the concrete file: the end-of-file indicator is set exactly by a short read, there is no error
                if k < want:
                    st.comps[('feof', root)] = C(1)
                elif st.comps.get(('feof', root)) is None:
                    st.comps[('feof', root)] = C(0)
                return [(st, C(k))]

            I = interp.Interp(prog, models=dict(models.STD_MODELS))
            I.const_override = {cname: H}
            I.fread_override = fread_file
            I.concrete_loops = True
            I.name_intervals = False
            st = interp.State()
            for i in range(n):
                st.sym['f%d' % i] = (0, 255)
            for i in range(64):
                st.sym['px%d' % i] = (0, 255)
                st.mem[(PFX, (i,))] = sym('px%d' % i)
            res = I.run(ctor, st, this=P(FBO, ()), args=[P(('file', 'f'), ()), ('opaque', 'cb'), P(PFX, (0,)) if with_pfx else NULL])
            runs += 1
            if len(res) != 1 or I.unmodelled:
                bad.append((with_pfx, n, 'constructor: %d paths %s' % (len(res), I.unmodelled[:1])))
                continue
            s = res[0][0]
            expected = ([sym('px%d' % i) for i in range(64)] if with_pfx else []) + fsym
            delivered = []
            okrun = True
            for call in range(len(expected) // 64 + 3):
                for i in range(64):
                    s.mem[(BLK, (i,))] = ('opaque', 'stale')
                r = I.run(rd, s, this=P(FBO, ()), args=[P(BLK, (0,)), ('opaque', 'cb')])
                if len(r) != 1 or r[0][1][0] != 'c' or I.unmodelled:
                    bad.append((with_pfx, n, 'call %d: %d paths, returns %s %s' % (call, len(r), show(r[0][1]) if r else '-', I.unmodelled[:1])))
                    okrun = False
                    break
                s, v = r[0]
                k = v[1]
                if not (0 <= k <= 64):
                    bad.append((with_pfx, n, 'call %d returns %d' % (call, k)))
                    okrun = False
                    break
                delivered += [s.mem.get((BLK, (i,))) for i in range(k)]
                if k < 64:
                    break
            else:
                bad.append((with_pfx, n, 'no short unit after %d calls' % (len(expected) // 64 + 3)))
                okrun = False
            if okrun and delivered != expected:
                d = next((i for i in range(min(len(delivered), len(expected))) if delivered[i] != expected[i]), min(len(delivered), len(expected)))
                bad.append((with_pfx, n, 'delivered %d bytes, expected %d; first difference at stream offset %d' % (len(delivered), len(expected), d)))
    rec.ob('R07.g', 'R07.g@%s::buffer-delivers-prefix-then-file-in-order' % fkey(rd), not bad, where,
           'unit count overridden to %d (capacity %d bytes): for %d file lengths x (with/without prefix block) the chunks read until the first short one are exactly prefix || file bytes, 64 bytes each but the last: %s' % (
               H, cap, len(lens), 'yes (%d object lifetimes)' % runs if not bad else 'NO: prefix=%s length %d: %s' % bad[0]))
    rec.count('R07.g buffer simulations', runs, 2 * len(lens))
    rec.assume('the file buffer code is parametric in its unit-count constant (array bound, refill test and read size only)')


HashRules.buffer_sim = buffer_simulation

_orig_buffer = HashRules.buffer


def _buffer_tolerant(self):
    """The inductive-invariant rule knows one representation; if the class no longer has it, the representation-independent
    simulation (R07.g) carries the verdict alone."""
    try:
        _orig_buffer(self)
    except AnalysisBroken as e:
        self.rec.extra['buffer_invariant_rule'] = 'skipped: %s' % e


HashRules.buffer = _buffer_tolerant


def _finaliser_bounds(self):
    """R11.f: for every final-block size the finaliser's memset/memcpy stay inside the 64-byte block buffer."""
    prog, rec = self.prog, self.rec
    for sub in self.subs:
        m = self.methods(sub)
        f = m['final']
        bad = []
        n = 0
        for r in range(64):
            ev = []

            class Lst:
                def on_memset(self, I, st, node, dst, val, size):
                    ev.append(('memset', dst, size, node))

                def on_memcpy(self, I, st, node, dst, src, size):
                    ev.append(('memcpy', dst, size, node))

                def on_new(self, I, st, node, obj, count, at):
                    caps[obj] = count

                def on_decl(self, I, st, decl, loc, node, fr):
                    t = I.prog.type(decl['t'])
                    if t.get('k') == 'array' and t.get('size'):
                        caps[loc[0]] = C(t['size'])
            caps = {}

            def compress_model(I, st, fr, nd, this, args, an):
                if len(args) == 1:
                    return [(st, ('void',))]
                return None
            I = interp.Interp(prog, listeners=[Lst()], models=dict(models.STD_MODELS))
            I.models[m['compress']['q']] = compress_model
            I.concrete_loops = True
            st = interp.State()
            st.mem[(OBJ, (self.total,))] = C(0)
            st.mem[(OBJ, ('$dyn',))] = ('type', sub['q'])
            I.run(f, st, this=P(OBJ, ()), args=[P(MSG, (0,)), C(r)])
            rec.saw(I)
            for kind, dst, size, node in ev:
                if dst[0] != 'p' or dst[1] == MSG:
                    continue
                cap = caps.get(dst[1])
                n += 1
                off = dst[2][-1] if dst[2] and isinstance(dst[2][-1], int) else None
                rs = rng(size, st.sym) if is_int(size) else None
                if cap is None or cap[0] != 'c' or off is None or rs is None:
                    bad.append((r, '%s of %s bytes at %s: extent not decidable' % (kind, show(size), show(dst)), None))
                elif off + rs[1] > cap[1] or rs[1] > (1 << 20):
                    bad.append((r, '%s of %s bytes at offset %d of a %d-byte block' % (kind, show(size), off, cap[1]), False))
        viol = [b for b in bad if b[2] is False]
        rec.ob('R11.f', 'R11.f@%s::finaliser-writes-inside-block' % fkey(f), (False if viol else (None if bad else True)), '%s:%s' % (f['file'], f['line']),
               '%s: memset/memcpy extents for final-block sizes 0..63: %s' % (sub['q'], 'all inside the block (%d operations)' % n if not bad else 'size %d: %s' % ((viol or bad)[0][0], (viol or bad)[0][1])))


HashRules.finaliser_bounds = _finaliser_bounds


def _hash_factory(self):
    """R08.f: the hash-mode byte selects the documented algorithm: mode 0 SHA-1, 1 MD5, 2 SHA-256 (README / format description):
    the number -> type function followed by the type -> object function yields an object of that class, for each of the three."""
    prog, rec = self.prog, self.rec
    T = prog.type
    makers = [f for f in prog.functions.values() if f.get('rec') and f.get('body') is not None and len(f['params']) == 1
              and (T(f['ret']) or {}).get('k') == 'ptr' and (T((T(f['ret']) or {}).get('to')) or {}).get('rec') == self.Bq]
    from wai.facts import outermost
    makers = outermost(prog, makers) if len(makers) > 1 else makers
    if len(makers) != 1:
        rec.ob('R08.f', 'R08.f@%s::mode-byte-selects-the-documented-hash' % self.Bq, None, self.base['file'], 'hash object factory not found (%d candidates)' % len(makers))
        return
    mk = makers[0]
    et = T(mk['params'][0]['t']) or {}
    conv = [f for f in prog.functions.values() if f.get('rec') == mk['rec'] and f.get('body') is not None and len(f['params']) == 1
            and (T(f['ret']) or {}).get('k') == 'enum' and (T(f['ret']) or {}).get('enum') == et.get('enum') and (T(f['params'][0]['t']) or {}).get('k') == 'int']
    where = '%s:%s' % (mk['file'], mk['line'])
    if len(conv) != 1 or et.get('k') != 'enum':
        rec.ob('R08.f', 'R08.f@%s::mode-byte-selects-the-documented-hash' % fkey(mk), None, where, 'number -> hash type function not found')
        return
    cv = conv[0]
    want = {0: 'sha1', 1: 'md5', 2: 'sha256'}
    FAC = ('ext', 'hashfactory')
    for b, kind in sorted(want.items()):
        I = interp.Interp(prog, models=dict(models.STD_MODELS))
        r1 = I.run(cv, interp.State(), this=P(FAC, ()), args=[C(b)])
        got = None
        det = ''
        if len(r1) == 1 and r1[0][1][0] == 'c':
            I2 = interp.Interp(prog, models=dict(models.STD_MODELS))
            r2 = I2.run(mk, interp.State(), this=P(FAC, ()), args=[r1[0][1]])
            rec.saw(I2)
            classes = set()
            for s2, v2 in r2:
                dyn = s2.mem.get((v2[1], v2[2] + ('$dyn',))) if v2[0] == 'p' else None
                classes.add(dyn[1] if dyn else show(v2))
            det = 'type %s -> %s' % (show(r1[0][1]), sorted(classes))
            if len(classes) == 1:
                c = next(iter(classes))
                sub = next((x for x in self.subs if x['q'] == c), None)
                got = self.kind(sub) if sub else None
        else:
            det = 'type function gives %s' % [show(v) for _, v in r1]
        rec.ob('R08.f', 'R08.f@%s::mode-%d-is-%s' % (fkey(mk), b, kind), got == kind, where,
               'hash mode byte %d: %s (documented: %s)' % (b, det, kind))


HashRules.factory = _hash_factory
