"""C10 Five mode stream objects equal NIST SP 800-38A; decryptors invert encryptors."""
from . import mode_rules, aes_rules
LEVEL = 'proof'
RULES = ('R10.s', 'R10.d', 'R10.i', 'R10.v', 'R10.c', 'R10.h', 'R03.c', 'R09.k', 'R09.s')


def run(prog, rec, tier):
    M = mode_rules.ModeRules(prog, rec)
    M.steps()
    M.inverse()
    M.counter()
    M.isolation()
    M.history()
    A = aes_rules.AesRules(prog, rec)
    A.key_load()
    from . import static_rules
    static_rules.scoped_statics(prog, rec, 'R09.s', 'R09.s@kernel/multi_aes/aes::objects-share-no-state', ('kernel/multi_aes/aes',), 'the block / mode code')
    rec.extra['explanation'] = (
        'For each of the ten (direction, type) pairs the real factory and constructors build the stream object from symbolic key and IV; one '
        'call of its runcry on a symbolic block is interpreted over byte terms with the block cipher as an uninterpreted 16-byte function '
        '(E for encryaes, D for decryaes); the resulting (block\', iv\') terms are identical to the SP 800-38A 6.1-6.5 step. Since the step '
        'reads and writes only the block, the iv register and cipher scratch (checked: no other member changes, no pointer to the block is '
        'kept), the stream for any number of blocks follows by induction on the block index. The reference decrypt step inverts the reference '
        'encrypt step under D(E(x)) = x. The CTR counter is checked as a 128-bit big-endian increment over the exhaustive partition of counter '
        'values by carry pattern (17 classes). The block cipher itself is C09.')
    rec.extra['checker_cmd'] = './check C10'
    rec.extra['trusted_base'] = ['clang 14 front end', 'wfacts extractor', 'wai term interpreter', 'SP 800-38A step functions in rules/mode_rules.py (spec_step)']
    rec.assume('decryaes inverts encryaes (C09)')
