"""C12 Verify accepts exactly what decrypt accepts; writes nothing; inputs stay intact."""
from .common import combined
LEVEL = 'other'
RULES = ('R12.a', 'R12.b', 'R12.c', 'R12.d', 'R12.e', 'R12.f', 'R12.g', 'R02.f', 'R04.g', 'R11.a', 'R01.j', 'R04.f', 'R01.u')


def run(prog, rec, tier):
    from . import static_rules as _sr
    _sr.unsequenced(prog, rec, 'R01.u', 'R01.u@kernel::evaluation-order', ('kernel', 'main.cpp', 'valget'))
    from . import cli_rules
    C = cli_rules.CliRules(prog, rec)
    C.parser()
    C.input_mode()
    C.interactive()
    combined(prog, rec, tier, RULES, driver=('reader',), pipe=True,
             explanation='Sibling agreement: on every abstract path of execute_verify and execute_decrypt the result is exactly '
             '(shared verification step returned 0); both reach that step with the same stream reads and get the same outcome set; '
             'a missing input is handled alike; the verify operation has no output effect; no operation writes through the input stream; the input is opened read-only and the default output name is the input '
             'path plus a non-empty suffix (so the "wb+" open can never truncate the input).')
    C.exit_mapping()      # R12.f uses what the reader analysis found out about the verification step
    rec.obls = [o for o in rec.obls if o.rule in RULES]
    rec.instances = {k: v for k, v in rec.instances.items() if any(k.startswith(r) for r in RULES)}
