"""C11 Any byte string as input file is handled cleanly: failure, no crash, no output."""
from .common import combined
LEVEL = 'other'
RULES = ('R04.g', 'R04.f', 'R11.a', 'R11.b', 'R11.g', 'S-CMP', 'R07.e', 'R07.g', 'R01.e', 'R11.d', 'R11.f', 'S-GATE', 'R01.b', 'R01.c', 'R01.d', 'R12.a', 'R12.b', 'R07.d', 'R01.j', 'R11.h')


def run(prog, rec, tier):
    combined(prog, rec, tier, RULES, driver=('reader', 'bounds'), hmac=('scmp', 'structure'), pipe=True, hash=('finaliser', 'finaliser_bounds', 'drivers', 'buffer', 'buffer_sim'),
             explanation='On every abstract path of verify/decrypt from a constructor-built object (mode bytes, tag and IVs as unknown file '
             'bytes, short reads included): no NULL result of a factory is dereferenced, the cipher selector handed to the stream factory lies '
             'in the factory\'s non-NULL cases, header reads fit their buffers for every T, nothing reaches the output unless verification '
             'returned 0; in the pipeline: no READY buffer without blocks, export size within the buffer under a valid-padding guard, no '
             'b[now-1] with now = 0; the hash finalisers keep every write inside their 64-byte block for all 64 residues. '
             'Whole-program memory safety for every input is not claimed.')
