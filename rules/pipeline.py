"""Pipeline rules: monitor discipline (S-LOCK), ownership typestate with rely/guarantee (S-OWN),
chunk arithmetic (R01.*), exactly-once (R03.*), termination structure (R04.*).

Anchors are discovered from types and resolved calls, never from names in text:
  M  monitor class   = record with a std::mutex, >=1 std::condition_variable and >=1 other field
  G  group class     = record with a pointer field to M and a pointer field to another record B
  B  buffer class    = that other record
  worker entry       = first argument of the std::thread constructor call(s)
  spawner            = function containing the std::thread construction (and the joins)
  io entry           = the G method called by the spawner between spawn and join
"""
from wai import facts, interp, models
from wai.facts import AnalysisBroken, walk, strip, loc as nloc
from wai.values import *


def fkey(fn):
    return '%s::%s' % (fn['file'], fn['q'])


class Anchors:
    def __init__(self, prog):
        self.prog = prog
        T = prog.type
        mons = []
        for r in prog.records.values():
            fs = r['fields']
            mut = [f for f in fs if T(f['t']).get('rec') == 'std::mutex']
            cvs = [f for f in fs if T(f['t']).get('rec') == 'std::condition_variable']
            oth = [f for f in fs if f not in mut and f not in cvs]
            if mut and cvs and oth:
                mons.append((r, mut, cvs, oth))
        if len(mons) != 1:
            raise AnalysisBroken('expected exactly one monitor class (mutex + condition_variable + state), found %d' % len(mons))
        self.M, mut, cvs, oth = mons[0]
        self.Mq = self.M['q']
        self.mutex = mut[0]['d'][2:]
        self.cvs = [c['d'][2:] for c in cvs]
        self.state_fields = [f['d'][2:] for f in oth]
        self.state = self.state_fields[0]
        st_t = T(oth[0]['t'])
        if st_t.get('k') != 'enum' or st_t.get('enum') not in prog.enums:
            raise AnalysisBroken('monitor state field %s is not of a known enumeration type' % self.state)
        self.enum = prog.enums[st_t['enum']]['consts']      # name -> value
        self.ALL = frozenset(self.enum.values())
        self.ename = {v: k for k, v in self.enum.items()}
        groups = []
        self.split = None       # array-of-structs layout: G points at one array of a struct holding one monitor and one buffer
        for r in prog.records.values():
            pm, pb, ps = [], [], []
            for f in r['fields']:
                t = T(f['t'])
                if t.get('k') == 'ptr':
                    to = T(t['to'])
                    if to.get('k') == 'rec' and to.get('rec') == self.Mq:
                        pm.append(f)
                    elif to.get('k') == 'rec' and to.get('rec') in prog.records and to.get('rec') != r['q']:
                        inner = prog.records[to['rec']]
                        im = [x for x in inner['fields'] if T(x['t']).get('k') == 'rec' and T(x['t']).get('rec') == self.Mq]
                        ib = [x for x in inner['fields'] if T(x['t']).get('k') == 'rec' and T(x['t']).get('rec') in prog.records and T(x['t']).get('rec') != self.Mq]
                        if len(im) == 1 and len(ib) == 1 and len(inner['fields']) == 2:
                            ps.append((f, im[0], ib[0]))
                        else:
                            pb.append((f, to['rec']))
            if pm and pb:
                groups.append((r, pm, pb))
            elif ps:
                f, im, ib = ps[0]
                self.split = {'field': f['d'][2:], 'ctrl': im['d'][2:], 'buf': ib['d'][2:]}
                groups.append((r, [f], [(f, T(ib['t'])['rec'])]))
        if len(groups) != 1:
            raise AnalysisBroken('expected exactly one group class holding monitor and buffer arrays, found %d' % len(groups))
        self.G, pm, pb = groups[0]
        self.Gq = self.G['q']
        self.ctrl_field = pm[0]['d'][2:]
        self.buf_field = pb[0][0]['d'][2:]
        self.Bq = pb[0][1]
        self.B = prog.records[self.Bq]
        # thread construction sites
        self.spawn_sites = []
        for f in prog.functions.values():
            for n in walk(f['body']):
                if n['k'] in ('CXXConstructExpr', 'CXXTemporaryObjectExpr') and n.get('callee', {}).get('rec') == 'std::thread' \
                        and len(n.get('args', [])) >= 1 and not n['callee'].get('copy'):
                    a0 = strip(n['args'][0])
                    if a0.get('k') == 'DeclRefExpr' and a0.get('dk') == 'Function':
                        self.spawn_sites.append((f, n, a0['d']))
        if not self.spawn_sites:
            raise AnalysisBroken('no std::thread construction with a function entry found')
        entries = {d for _, _, d in self.spawn_sites}
        spawners = {f['id'] for f, _, _ in self.spawn_sites}
        if len(entries) != 1 or len(spawners) != 1:
            raise AnalysisBroken('expected one worker entry and one spawner, found %d / %d' % (len(entries), len(spawners)))
        self.worker = prog.functions.get(next(iter(entries)))
        if self.worker is None:
            raise AnalysisBroken('worker entry has no body in the repository')
        self.spawner = self.spawn_sites[0][0]
        # io entry: method of G called from the spawner
        ios = []
        for n in walk(self.spawner['body']):
            if n['k'] == 'CXXMemberCallExpr' and n['callee'].get('rec') == self.Gq and n['callee'].get('m') in prog.functions:
                f = prog.functions[n['callee']['m']]
                if not f.get('static'):
                    ios.append((n, f))
        if len(ios) != 1:
            raise AnalysisBroken('expected one call of a %s method in the spawner, found %d' % (self.Gq, len(ios)))
        self.io_call, self.io = ios[0]
        # cipher step: the virtual method invoked on the worker's reference parameter
        self.step = None
        for n in walk(self.worker['body']):
            if n['k'] == 'CXXMemberCallExpr' and n['callee'].get('virt'):
                self.step = n['callee']
        if self.step is None:
            raise AnalysisBroken('worker entry does not call a virtual cipher step')
        # live counter: static integer member of the monitor class
        self.live = None
        for g in prog.globals.values():
            if g['q'].startswith(self.Mq + '::') and g.get('staticmember') and prog.type(g['t']).get('k') == 'int' and not g.get('const'):
                self.live = 'G:' + g['q']
        # the block array of a buffer: a member array of rows, or a pointer to rows the buffer allocates for itself
        self.heap_fields = {}
        self.blk = None
        for x in self.B['fields']:
            t = T(x['t'])
            if t.get('k') == 'array':
                self.blk = x['d'][2:]
            elif t.get('k') == 'ptr' and (T(t['to']).get('k') == 'array' or T(t['to']).get('bits') == 8):
                self.heap_fields[x['d'][2:]] = x['d'][2:] + '$heap'
                self.blk = x['d'][2:] + '$heap'
        if self.blk is None:
            raise AnalysisBroken('block array of %s not found' % self.Bq)
        # rows of 16 bytes (b[units][16]) or one flat byte array (unit i at b + 16*i)
        self.flat = False
        for x in self.B['fields']:
            t = T(x['t'])
            if x['d'][2:] == self.blk and t.get('k') == 'array' and (T(t.get('el')) or {}).get('bits') == 8:
                self.flat = True
        # chunk constants
        self.consts = {}
        for g in prog.globals.values():
            if g['q'].startswith(self.Bq + '::') and g.get('const') and isinstance(g.get('value'), int):
                self.consts[g['q']] = g['value']

    def names(self, vals):
        if vals is None:
            return 'ANY'
        return '{' + ','.join(self.ename.get(v, str(v)) for v in sorted(vals)) + '}'


# ------------------------------------------------------------------------------------------------
BG = ('ext', 'group')
CTRL = ('ext', 'ctrlarr')
BUFS = ('ext', 'bufarr')
SLOTS = ('ext', 'slotarr')


def split_hook(A):
    """interpreter option: members of the slot struct are addressed as elements of the parallel arrays CTRL / BUFS"""
    if not A.split:
        return None
    return {'obj': SLOTS, 'map': {A.split['ctrl']: CTRL, A.split['buf']: BUFS}}

FIN = P(('file', 'fin'), ())
FOUT = P(('file', 'fout'), ())
TSYM = 'T'
AUXBLK = (('aux', 'blk'), ())
AUXGOT = (('aux', 'got'), ())


def initial_state(A, role, ispadding):
    st = interp.State()
    st.sym[TSYM] = (1, 16)
    st.mem[('G:%s::instance' % A.Gq, ())] = P(BG, ())
    if A.split:
        st.mem[(BG, (A.split['field'],))] = P(SLOTS, (0,))
    else:
        st.mem[(BG, (A.ctrl_field,))] = P(CTRL, (0,))
        st.mem[(BG, (A.buf_field,))] = P(BUFS, (0,))
    for f in A.G['fields']:
        t = A.prog.type(f['t'])
        d = f['d'][2:]
        if t.get('s') == 'FILE *' or t.get('s', '').startswith('_IO_FILE'):
            st.mem[(BG, (d,))] = FIN if 'in' in f['n'] else FOUT
    st.mem[(BG, (A.Gq + '::size',))] = sym(TSYM)
    st.mem[(BG, (A.Gq + '::ispadding',))] = C(1 if ispadding else 0)
    st.mem[(BG, (A.Gq + '::over',))] = C(0)
    st.sym['turn0'] = (0, 15)
    st.mem[(BG, (A.Gq + '::turn',))] = sym('turn0')
    st.comps['lockset'] = frozenset()
    if A.live:
        st.mem[(A.live, ())] = sym(TSYM)
    return st


def cell_path(A, blk, off, symr=None):
    """Path (below the buffer object) of byte `off` of unit `blk` of the block array, for both layouts."""
    if not A.flat:
        return (A.blk, blk, off)
    b = C(blk) if isinstance(blk, int) else blk
    o = C(off) if isinstance(off, int) else off
    v = add(mul(C(16), b, symr or {}), o, symr or {})
    return (A.blk, v[1] if v[0] == 'c' else v)


class RoleListener:
    """Typestate of the ownership token as the abstract value of the monitor's state field,
    made thread-modular by rely/guarantee: at every lock release the value is kept only if the
    *other* role cannot change it (stable set), otherwise forgotten."""

    def __init__(self, A, rec, role, stable, own, ready_inv=None, quiet=False):
        self.A, self.rec, self.role = A, rec, role
        self.stable = stable            # values of state the other role never writes from
        self.own = own                  # values of state under which this role may touch the buffer
        self.ready_inv = ready_inv      # assumed buffer invariant when the worker acquires READY
        self.quiet = quiet
        self.write_from = set()         # observed pre-values of stores to state (guarantee side)
        self.written = set()
        self.acc = 0
        self.acc_bad = []
        self.stack = []
        self.steps = 0
        self.ready_facts = []           # io role: buffer facts at the store state=READY
        self.exit_states = []
        self.b_written = {}             # buffer field -> set of functions writing it in this role
        self.handback_facts = []        # worker role: (now, total) relation at the hand-back store
        self.keep_on_handover = None    # io role: buffer fields the worker never writes
        self.cursor = None
        self.cursor_fn = None
        self.handover = {}              # io role: field -> joined range at hand-over (inferred object invariant)
        self.inv = None                 # io role: object invariant assumed for a buffer with no remembered facts
        self.full_shapes = []           # io role: field ranges of buffers handed to a worker after a load that returned FULL
        self.mark_full = False          # io role: the invariant in use is the FULL shape; materialised buffers are marked

    # helpers
    def is_state(self, loc):
        return loc is not None and loc[1] and loc[1][-1] == self.A.state

    def mon_of(self, loc):
        return (loc[0], loc[1][:-1])

    def cur_fn(self, I):
        return I.frames[-1].fn if I.frames else None

    def state_val(self, I, st, idx):
        v = I.load(st, (CTRL, (idx, self.A.state)))
        if v == TOP:
            return None
        return setof(v)

    # events
    def on_prestore(self, I, st, loc, val, node):
        self.materialise(I, st, loc)
        if self.is_state(loc):
            fn = self.cur_fn(I)
            if fn is not None and fn.get('ctor') and fn.get('rec') == self.A.Mq:
                return
            pre = I.load(st, loc)
            pre = I.enum_default(pre, {'k': 'enum', 'enum': next(k for k, e in I.prog.enums.items() if e['consts'] is self.A.enum)})
            ps = setof(pre)
            self.write_from |= set(ps) if ps is not None else set(self.A.ALL)
            ns = setof(val)
            self.written |= set(ns) if ns is not None else set(self.A.ALL)
            # M1: lock of the same object held
            mon = self.mon_of(loc)
            lk = (mon[0], mon[1] + (self.A.mutex,))
            held = lk in models.lockset(st)
            if not self.quiet:
                self.rec.ob('M1', 'M1@%s::write-%s' % (fkey(fn), self.A.state.split('::')[-1]), held, nloc(node),
                            'write of %s with the object\'s mutex %s' % (self.A.state, 'held' if held else 'NOT held'),
                            path=[str(x) for x in st.trace[-6:]])
            if self.role == 'worker' and not self.quiet:
                dr = st.comps.get('drained')
                self.rec.ob('R03.d', 'R03.d@%s::hand-back-only-when-consumed' % fkey(fn), dr is True, nloc(node),
                            'worker hands its buffer back %s' % ('after the entry cursor reported the chunk consumed' if dr
                                                                   else 'although the last cursor call did not report the chunk consumed (blocks may be exported untransformed)'),
                            path=[str(x) for x in st.trace[-8:]])
            if self.role == 'io' and ns is not None and self.A.enum.get('READY') in ns and len(loc[1]) >= 2:
                idx = loc[1][-2]
                now = I.load(st, (BUFS, (idx, self.A.Bq + '::now')))
                total = I.load(st, (BUFS, (idx, self.A.Bq + '::total')))
                self.ready_facts.append((now, rng(total, st.sym), nloc(node), st.trace))
        if loc is not None and loc[0] == BUFS and len(loc[1]) >= 2:
            field = next((x for x in loc[1][1:] if isinstance(x, str)), '?')
            fn = self.cur_fn(I)
            self.b_written.setdefault(field, set()).add(fn['id'] if fn else '?')
        if self.A.live and loc == (self.A.live, ()):
            fn = self.cur_fn(I)
            old = I.load(st, loc)
            delta = add(val, old, st.sym, -1) if is_int(val) and is_int(old) and val != TOP and old != TOP else TOP
            # the operation itself says more than the (possibly wrapped / widened) values
            if node is not None and node.get('k') == 'UnaryOperator' and node.get('op') in ('++', '--'):
                delta = C(1 if node['op'] == '++' else -1)
            elif node is not None and node.get('k') == 'CompoundAssignOperator' and node.get('op') in ('+=', '-=') and 'cv' in node.get('rhs', {}):
                delta = C(node['rhs']['cv'] if node['op'] == '+=' else -node['rhs']['cv'])
            incs = st.comps.get('cs_dec', 0)
            in_mon = fn is not None and fn.get('rec') == self.A.Mq
            if fn is not None and fn.get('ctor') and in_mon:
                ok = delta == C(1)
                what = 'constructor adds %s' % show(delta)
            else:
                held = any(m[1] and m[1][-1] == self.A.mutex for m in models.lockset(st))
                ok = in_mon and held and delta == C(-1)
                what = 'changed by %s %s the monitor mutex' % (show(delta), 'under' if held else 'WITHOUT')
                st.comps['cs_dec'] = incs + 1
            if not self.quiet:
                self.rec.ob('R04.d', 'R04.d@%s::live-counter-update' % fkey(fn), ok, nloc(node), 'live counter %s' % what)
        if self.is_state(loc) and not (self.cur_fn(I) or {}).get('ctor'):
            ns = setof(val)
            if ns is not None and ns == {self.A.enum['INV']}:
                st.comps['cs_inv'] = st.comps.get('cs_inv', 0) + 1
            elif ns is None or self.A.enum['INV'] in ns:
                st.comps['cs_inv'] = -100
        self.buffer_access(I, st, loc, node, True)

    def on_store(self, I, st, loc, val, node):
        # the index of the slot whose turn it is only selects which slot is next; whatever arithmetic produced it, it is "some
        # slot index": one rigid unknown per store site within what the value allows (slots are reasoned about through the
        # hand-over protocol, never through index arithmetic)
        if self.role == 'io' and loc is not None and loc[0] == BG and loc[1] == (self.A.Gq + '::turn',) and is_int(val):
            if val[0] == 'l' and val[1] == 0 and len(val[2]) == 1 and val[2][0][1] == 1:
                return
            lo, hi = 0, 15
            nm = '$turn%s' % (node.get('_id') if isinstance(node, dict) else '')
            if nm in st.sym:
                I.purge_symbol(st, nm)
                for k in [k for k in st.comps if isinstance(k, tuple) and len(k) == 2 and k[1] == sym(nm)]:
                    del st.comps[k]
            st.sym[nm] = (lo, hi)
            st.mem[loc] = sym(nm)

    def on_exit(self, I, st, node, code):
        # the process is ended from inside the pipeline on a path on which every library call succeeded (I/O errors are not modelled)
        fn = self.cur_fn(I)
        if not self.quiet:
            self.rec.ob('R04.g', 'R04.g@%s::no-exit-on-a-successful-path' % fkey(fn), False, nloc(node),
                        '%s role: exit(%s) is reached although no library call failed on this path' % (self.role, show(code)),
                        path=[str(x) for x in st.trace[-8:]])

    def on_preload(self, I, st, loc, node):
        if loc is None:
            return
        # worker acquires READY: the io role guarantees now == 0 and 1 <= total <= BUF_SZ (R01.b, proven on the io side)
        if self.role == 'worker' and self.ready_inv and loc[0] == BUFS and len(loc[1]) >= 2:
            idx = loc[1][0]
            if st.comps.get(('fresh', idx)):
                sv = self.state_val(I, st, idx)
                if sv is not None and sv == {self.A.enum['READY']}:
                    I.counter += 1
                    tt = '$tot%d' % I.counter
                    st.sym[tt] = (1, self.ready_inv['max_total'])
                    st.mem[(BUFS, (idx, self.A.Bq + '::now'))] = C(0)
                    st.mem[(BUFS, (idx, self.A.Bq + '::total'))] = sym(tt)
                    st.comps[('fresh', idx)] = False
                elif sv is not None and sv == {self.A.enum['INV']}:
                    st.comps[('fresh', idx)] = False
        self.materialise(I, st, loc)
        self.buffer_access(I, st, loc, node, False)

    def materialise(self, I, st, loc):
        if self.role == 'io' and self.inv is not None and loc is not None and loc[0] == BUFS and len(loc[1]) >= 2:
            idx = loc[1][0]
            if isinstance(idx, str):
                return
            tk = (BUFS, (idx, self.A.Bq + '::total'))
            if not any(k[0] == BUFS and k[1][:1] == (idx,) and len(k[1]) == 2 and k[1][1] in self.inv for k in st.mem) and not st.comps.get(('mat', idx)):
                # a buffer this role has no facts about is either freshly constructed or was handed over earlier
                # and came back: the inferred object invariant holds, and cursor == total
                for f, r in self.inv.items():
                    if r is None:
                        continue
                    I.counter += 1
                    nm = '$inv%d' % I.counter
                    st.sym[nm] = r
                    st.mem[(BUFS, (idx, f))] = sym(nm) if r[0] != r[1] else C(r[0])
                if tk in st.mem and self.cursor:
                    st.mem[(BUFS, (idx, self.cursor))] = st.mem[tk]
                if self.mark_full:
                    st.comps[('matfull', idx)] = True


    def buffer_access(self, I, st, loc, node, is_write):
        if loc is None or loc[0] != BUFS or len(loc[1]) < 2:
            return
        idx = loc[1][0]
        sv = self.state_val(I, st, idx)
        ok = sv is not None and sv <= self.own
        self.acc += 1
        fn = self.cur_fn(I)
        field = next((x for x in loc[1][1:] if isinstance(x, str)), '?')
        if not self.quiet:
            self.rec.ob('S-OWN', 'S-OWN@%s::%s-%s-%s' % (fkey(fn), self.role, 'write' if is_write else 'read', field.split('::')[-1]),
                        ok, nloc(node) if node else '?',
                        '%s role %s %s while token is %s (needs subset of %s)' % (
                            self.role, 'writes' if is_write else 'reads', field, self.A.names(sv), self.A.names(self.own)),
                        path=[str(x) for x in st.trace[-8:]])

    def on_unlock(self, I, st, node, mutex):
        if not mutex[1] or mutex[1][-1] != self.A.mutex:
            return
        if self.A.live:
            d, v = st.comps.pop('cs_dec', 0), st.comps.pop('cs_inv', 0)
            if (d or v) and not self.quiet:
                self.rec.ob('R04.d', 'R04.d@%s::live-counter-tracks-INV' % fkey(self.cur_fn(I)), d == v, nloc(node),
                            'critical section: token set INV %s time(s), live counter decremented %s time(s)' % (v if v >= 0 else 'maybe', d))
        mon = (mutex[0], mutex[1][:-1])
        sl = (mon[0], mon[1] + (self.A.state,))
        v = I.load(st, sl)
        sv = setof(v) if v != TOP else None
        if sv is None or not (sv <= self.stable):
            st.mem[sl] = S(self.A.ALL)
            # the buffer of that index may now be touched by the other role
            if len(mon[1]) >= 1:
                idx = mon[1][-1]
                keep = self.keep_on_handover or ()
                for k in list(st.mem.keys()):
                    if k[0] == BUFS and k[1][:1] == (idx,) and not (len(k[1]) == 2 and k[1][1] in keep):
                        del st.mem[k]
                st.abs = frozenset(k for k in st.abs if k in st.mem)
                if self.role == 'worker':
                    st.comps[('fresh', idx)] = True
                elif self.cursor is not None:
                    # rely (proved on the worker side, R03.b/R03.d): the worker writes only the cursor and the
                    # block contents, and hands back only when cursor == total
                    tot = st.mem.get((BUFS, (idx, self.A.Bq + '::total')))
                    if tot is not None:
                        st.mem[(BUFS, (idx, self.cursor))] = tot
                    # object invariant inference: remember what a handed-over buffer looks like
                    cls_ = st.comps.pop('handclass', None)
                    if cls_ == frozenset(['FULL']):
                        shape = {}
                        for f in keep:
                            v = st.mem.get((BUFS, (idx, f)))
                            shape[f] = rng(v, st.sym) if v is not None and is_int(v) else None
                        if shape not in self.full_shapes:
                            self.full_shapes.append(shape)
                    for f in keep:
                        v = st.mem.get((BUFS, (idx, f)))
                        r = rng(v, st.sym) if v is not None and is_int(v) else None
                        old = self.handover.get(f, 'none')
                        if r is None:
                            self.handover[f] = None
                        elif old == 'none':
                            self.handover[f] = r
                        elif old is not None:
                            self.handover[f] = (min(old[0], r[0]), max(old[1], r[1]))

    def on_lock(self, I, st, node, mutex):
        pass

    def _fileop(self, I, st, node, what, root):
        if self.role == 'worker' and not self.quiet:
            self.rec.ob('S-ROLE', 'S-ROLE@%s::worker-file-io' % fkey(self.cur_fn(I)), False, nloc(node),
                        'worker thread performs %s on stream %s: file order is no longer decided by one thread' % (what, root))
        self.fileops = getattr(self, 'fileops', 0) + 1

    def on_fread(self, I, st, node, root, pos, size, dst, got):
        self._fileop(I, st, node, 'fread', root)

    def on_fwrite(self, I, st, node, root, pos, size, src, fval):
        self._fileop(I, st, node, 'fwrite', root)

    def on_fseek(self, I, st, node, root, off, whence):
        self._fileop(I, st, node, 'fseek', root)

    def on_call(self, I, st, node, q, callee, this, args, argnodes, fr):
        if callee.get('m') == self.A.step.get('m'):
            self.steps += 1

    def on_ret(self, I, st, node, q, callee, this, args, val, fr):
        if self.role == 'worker' and self.cursor_fn is not None and callee.get('m') == self.cursor_fn:
            st.comps['drained'] = (val == NULL)


def step_model(A, rec, counters):
    def m(I, st, fr, n, this, args, an):
        blk = args[0] if args else TOP
        counters['steps'] = counters.get('steps', 0) + 1
        pend = st.mem.get(AUXBLK) if st.comps.get('blk') else None
        ok = blk[0] == 'p' and blk[1] == BUFS and pend == blk
        rec.ob('R03.a', 'R03.a@%s::step-receives-current-entry' % fkey(A.worker), ok, nloc(n),
               'cipher step applied to %s; outstanding entry %s' % (show(blk), show(pend) if pend else 'none'))
        st.comps['blk'] = False
        st.mem.pop(AUXBLK, None)
        return [(st, ('void',))]
    return m


class WorkerFlow:
    """R03.a exactly once: every non-NULL entry obtained by the thread entry is passed to the cipher step
    exactly once before the next request or exit; R04.a: the thread exits only when its token is INV."""

    def __init__(self, A, rec):
        self.A, self.rec = A, rec
        self.requests = 0

    def on_ret(self, I, st, node, q, callee, this, args, val, fr):
        if fr.depth != 0 or fr.fn['id'] != self.A.worker['id']:
            return
        if callee.get('m') == self.A.step.get('m'):
            return
        if is_ptr(val) and (val[0] == 'p' and val[1] == BUFS):
            self.requests += 1
            prev = st.mem.get(AUXBLK) if st.comps.get('blk') else None
            self.rec.ob('R03.a', 'R03.a@%s::request-with-unprocessed-entry' % fkey(self.A.worker), prev is None, nloc(node),
                        'new entry requested while %s' % ('previous entry was processed' if prev is None else 'entry %s was never transformed' % show(prev)))
            st.comps['blk'] = True
            st.mem[AUXBLK] = val

    def on_leave(self, I, st, fn, fr, node, val):
        if fr.depth != 0:
            return
        prev = st.mem.get(AUXBLK) if st.comps.get('blk') else None
        self.rec.ob('R03.a', 'R03.a@%s::exit-with-unprocessed-entry' % fkey(self.A.worker), prev is None, nloc(fn['body']),
                    'thread exits %s' % ('with every obtained entry transformed' if prev is None else 'holding untransformed entry %s' % show(prev)))
        idv = st.mem.get(fr.vars.get(fn['params'][0]['id']))
        sv = None
        if idv is not None:
            v = I.load(st, (CTRL, (idv[1] if idv[0] == 'c' else idv, self.A.state)))
            sv = setof(v) if v != TOP else None
        ok = sv is not None and sv <= {self.A.enum['INV']}
        self.rec.ob('R04.a', 'R04.a@%s::exit-only-on-INV' % fkey(self.A.worker), ok, nloc(fn['body']),
                    'worker thread exits with token %s (must be {INV}: otherwise the I/O thread waits forever on it)' % self.A.names(sv),
                    path=[str(x) for x in st.trace[-10:]])


def partitioned_fread(A, sumv, bufsz):
    """fread model for the chunk read: the remaining length r is split into
    r = 0 | 0 < r < sum (aligned / each residue) | r = sum | r > sum.  EOF flag set iff short read."""
    def ov(I, st, fr, n, dst, sz, cnt, f, root):
        if root != 'fin' or cnt != C(sumv) or sz != C(1):
            return None
        rem = st.comps.get(('frem', root), 'unknown')
        cases = []
        if rem == 'err':
            cases.append(('read error (persists)', C(0), 'err', 0))
        if rem == 'unknown':
            # the read fails (EISDIR, EIO ...): nothing arrives and the end-of-file indicator stays clear
            cases.append(('read error', C(0), 'err', 0))
        if rem in ('unknown', 'zero'):
            cases.append(('r=0', C(0), 'zero', 1))
        if rem in ('unknown', 'pos'):
            I.counter += 1
            q = '$q%d' % I.counter
            t = '$t%d' % I.counter
            cases.append(('0<r<sum,r%16=0', L(0, {q: 16}), 'zero', 1, (q, (1, bufsz - 1))))
            cases.append(('0<r<sum,r%16!=0', L(0, {q: 16, t: 1}), 'zero', 1, (q, (0, bufsz - 1)), (t, (1, 15))))
            cases.append(('r=sum', C(sumv), 'zero', 0))
            cases.append(('r>sum', C(sumv), 'pos', 0))
        out = []
        for c in cases:
            s = st.copy()
            for extra in c[4:]:
                s.sym[extra[0]] = extra[1]
            if dst[0] == 'p':
                models.write_region(I, s, dst, TOP, 'file', n)
            s.comps[('frem', root)] = c[2]
            s.comps[('feof', root)] = C(c[3])
            s.comps[('lastread', root)] = c[0]
            s.note((nloc(n), 'fread:' + c[0]))
            I.emit('fread', s, node=n, root=root, pos=TOP, size=cnt, dst=dst, got=c[1])
            out.append((s, c[1]))
        return out
    return ov


def fgetc_by_remaining(I, st, fr, n, f, root):
    rem = st.comps.get(('frem', root), 'unknown')
    out = []
    if rem == 'err':
        s = st.copy()
        s.comps[('feof', root)] = C(0)
        s.note((nloc(n), 'fgetc=EOF (read error)'))
        return [(s, C(-1))]
    if rem in ('unknown', 'zero'):
        s = st.copy()
        s.comps[('feof', root)] = C(1)
        s.comps[('frem', root)] = 'zero'
        s.note((nloc(n), 'fgetc=EOF'))
        out.append((s, C(-1)))
    if rem in ('unknown', 'pos'):
        s = st.copy()
        s.comps[('feof', root)] = C(0)
        s.comps[('frem', root)] = 'pos-1'
        s.note((nloc(n), 'fgetc=byte'))
        out.append((s, R(0, 255)))
    return out


def m_ungetc_rem(I, st, fr, n, this, args, an):
    root = models.fileroot(args[1])
    if st.comps.get(('frem', root)) == 'pos-1':
        st.comps[('frem', root)] = 'pos'
    st.comps[('feof', root)] = C(0)
    return [(st, args[0])]


# ------------------------------------------------------------------------------------------------
class PipelineAnalysis:
    """Runs the role analyses once and hands the obligations to the per-property selections."""

    def __init__(self, prog, rec):
        self.prog, self.rec = prog, rec
        self.A = Anchors(prog)
        self.done = False
        self.info = {}

    def consts(self):
        A = self.A
        sumv = A.consts.get(A.Bq + '::sum')
        bufsz = A.consts.get(A.Bq + '::BUF_SZ')
        if sumv is None or bufsz is None:
            # fall back: any two constants c1, c2 of B with c1 == 16*c2
            vals = sorted(A.consts.values())
            for a in vals:
                for b in vals:
                    if a == 16 * b:
                        sumv, bufsz = a, b
        if sumv is None:
            raise AnalysisBroken('chunk size constants of %s not found' % A.Bq)
        return sumv, bufsz

    def run_worker(self, stable, own, quiet):
        A, rec = self.A, self.rec
        sumv, bufsz = self.consts()
        counters = {}
        rl = RoleListener(A, rec, 'worker', stable, own, ready_inv={'max_total': bufsz}, quiet=quiet)
        rl.cursor_fn = getattr(self, 'cursor_fn', None)
        wf = WorkerFlow(A, rec if not quiet else _Null())
        mdl = dict(models.STD_MODELS)
        mdl[A.step['q']] = step_model(A, rec if not quiet else _Null(), counters)
        I = interp.Interp(self.prog, listeners=[rl, wf], models=mdl)
        I.heap_fields = A.heap_fields
        I.split_fields = split_hook(A)
        st = initial_state(A, 'worker', True)
        st.sym['id'] = (0, 15)
        st.comps['blk'] = False
        st.comps[('fresh', sym('id'))] = True
        args = [sym('id'), P(('ext', 'mode'), ())]
        res = I.run(A.worker, st, args=args)
        rec.saw(I)
        return rl, wf, I, res, counters

    @staticmethod
    def slot_index_hook(I, st, fr, base, idx, node):
        """I/O role: whatever arithmetic produced the index into the slot arrays, it is "some slot": one rigid unknown per
        subscript site, written back to the variable it was read from so that later uses of that variable mean the same slot."""
        if not (is_ptr(base) and base[0] == 'p' and base[1] in (CTRL, BUFS, SLOTS) and len(base[2]) <= 1 and is_int(idx)):
            return idx
        if idx[0] == 'l' and idx[1] == 0 and len(idx[2]) == 1 and idx[2][0][1] == 1 and str(idx[2][0][0]).startswith(('$slot', '$turn', 'turn0', '$n')):
            return idx
        r = rng(idx, st.sym) if idx != TOP else None
        if r is not None and (r[1] < 0 or r[0] > 15):
            return idx
        lo, hi = 0, 15
        nm = '$slot%s' % node.get('_id')
        if nm in st.sym:
            # the name is tied to the subscript site; what is known about the slot it denoted before is forgotten
            I.purge_symbol(st, nm)
            for k in [k for k in st.comps if isinstance(k, tuple) and len(k) == 2 and k[1] == sym(nm)]:
                del st.comps[k]
        st.sym[nm] = (lo, hi)
        new = sym(nm)
        lvn = I._lvalue_of_rvalue(node['idx']) if isinstance(node.get('idx'), dict) else None
        if lvn is not None:
            ls = I.lv(lvn, st, fr)
            if len(ls) == 1 and ls[0][1] is not None and ls[0][0] is st:
                st.mem[ls[0][1]] = new
        return new

    def run_io(self, stable, own, ispadding, quiet, full_shape=None, report_k=True):
        A, rec = self.A, self.rec
        sumv, bufsz = self.consts()
        rl = RoleListener(A, rec, 'io', stable, own, quiet=quiet)
        rl.keep_on_handover = getattr(self, 'keep_on_handover', None)
        rl.cursor = getattr(self, 'cursor', None)
        rl.inv = getattr(self, 'io_inv', {}).get(ispadding)
        if full_shape is not None:
            rl.inv, rl.mark_full = full_shape, True
        mdl = dict(models.STD_MODELS)
        mdl['ungetc'] = m_ungetc_rem
        lst = [rl]
        chk = ChunkRules(A, (rec if not quiet else _Null()) if full_shape is None else _Only(rec, ('R01.k',) if report_k else ()), ispadding, sumv, bufsz)
        lst.append(chk)
        I = interp.Interp(self.prog, listeners=lst, models=mdl)
        I.heap_fields = A.heap_fields
        I.split_fields = split_hook(A)
        I.fread_override = partitioned_fread(A, sumv, bufsz)
        I.fgetc_override = fgetc_by_remaining
        I.index_hook = self.slot_index_hook
        st = initial_state(A, 'io', ispadding)
        res = I.run(A.io, st, this=P(BG, ()), args=[('opaque', 'printload')])
        rec.saw(I)
        if A.live and not quiet and full_shape is None:
            for s2, _ in res:
                lv = I.load(s2, (A.live, ()))
                rec.ob('R04.c', 'R04.c@%s::loop-ends-only-when-all-INV' % fkey(A.io), is_int(lv) and lv != TOP and compare('==', lv, C(0), s2.sym) is True, '%s:%s' % (A.io['file'], A.io['line']),
                       '%s: pipeline loop exits with live counter %s (must be 0: every buffer INV, every worker released)' % (
                           'encrypt' if ispadding else 'decrypt', show(lv)))
            rec.count('R04.c io exits ' + ('enc' if ispadding else 'dec'), len(res), 1)
        return rl, chk, I, res

    def analyse(self):
        if self.done:
            return
        self.done = True
        A, rec = self.A, self.rec
        E = A.enum
        for need in ('READY', 'INV', 'UPDATING', 'EMPTY'):
            if need not in E:
                raise AnalysisBroken('token enumerator %s not found in %s' % (need, sorted(E)))
        # --- rely/guarantee fixpoint: start optimistic, shrink stable sets by observed write-from sets
        stable_w = set(A.ALL)
        stable_io = set(A.ALL)
        rounds = 0
        while True:
            rounds += 1
            own_w = stable_w
            own_io = stable_io - {E['INV']}
            wl, _, _, _, _ = self.run_worker(frozenset(stable_w), frozenset(own_w), quiet=True)
            il, _, _, _ = self.run_io(frozenset(stable_io), frozenset(own_io), False, quiet=True)
            il2, _, _, _ = self.run_io(frozenset(stable_io), frozenset(own_io), True, quiet=True)
            new_w = set(A.ALL) - (il.write_from | il2.write_from)
            new_io = set(A.ALL) - wl.write_from
            if new_w == stable_w and new_io == stable_io:
                break
            # any fixpoint is a consistent rely/guarantee pair (circular reasoning is sound for safety, by induction on time);
            # the optimistic start is only a seed, so iterate the map itself rather than intersecting
            stable_w, stable_io = new_w, new_io
            if rounds > 8:
                raise AnalysisBroken('rely/guarantee iteration does not converge')
        own_w = frozenset(stable_w)
        own_io = frozenset(stable_io - {E['INV']})
        self.info.update(rounds=rounds, stable_worker=A.names(stable_w), stable_io=A.names(stable_io),
                         own_worker=A.names(own_w), own_io=A.names(own_io),
                         worker_writes_from=A.names(wl.write_from), io_writes_from=A.names(il.write_from | il2.write_from))
        rec.ob('S-OWN', 'S-OWN@%s::ownership-sets-disjoint' % A.Mq, not (own_w & own_io), A.M['file'],
               'worker may touch its buffer under %s, I/O thread under %s' % (A.names(own_w), A.names(own_io)))
        rec.ob('R04.d', 'R04.d@%s::INV-is-terminal' % A.Mq, E['INV'] not in (wl.write_from | il.write_from | il2.write_from), A.M['file'],
               'token is never written while it may be INV (worker writes from %s, I/O from %s)' % (
                   A.names(wl.write_from), A.names(il.write_from | il2.write_from)))
        # --- what the worker writes inside a buffer: one cursor field from one function (R03.b)
        scal = {f: fns for f, fns in wl.b_written.items()
                if f != A.blk and A.prog.type(next((x['t'] for x in A.B['fields'] if x['d'][2:] == f), None) or 'int').get('k') != 'array'}
        ok = len(scal) == 1 and len(next(iter(scal.values()))) == 1
        rec.ob('R03.b', 'R03.b@%s::worker-writes-only-the-cursor' % A.Bq, ok, A.B['file'],
               'worker role writes buffer bookkeeping fields %s' % {f: sorted(A.prog.functions[x]['q'] for x in v if x in A.prog.functions) for f, v in wl.b_written.items()})
        if ok:
            self.cursor = next(iter(scal))
            self.cursor_fn = next(iter(scal[self.cursor]))
            self.keep_on_handover = tuple(f['d'][2:] for f in A.B['fields']
                                          if f['d'][2:] not in wl.b_written and A.prog.type(f['t']).get('k') != 'array') + tuple(A.heap_fields.values())
            self.check_cursor()
        self.check_unpad()
        self.check_round_robin()
        # --- io-side object invariant of a buffer (joined over construction and every hand-over), by iteration
        self.io_inv = {}
        ctor0 = self.ctor_state()
        for pad in (True, False):
            inv = dict(ctor0)
            for it in range(5):
                self.io_inv[pad] = {f: r for f, r in inv.items() if f in (self.keep_on_handover or ())}
                il, _, _, _ = self.run_io(frozenset(stable_io), frozenset(stable_io - {E['INV']}), pad, quiet=True)
                new = dict(inv)
                for f, r in il.handover.items():
                    if r is None or new.get(f, 'none') is None:
                        new[f] = None
                    elif new.get(f, 'none') == 'none':
                        new[f] = r
                    else:
                        new[f] = (min(new[f][0], r[0]), max(new[f][1], r[1]))
                if new == inv:
                    break
                inv = new
            else:
                raise AnalysisBroken('buffer object invariant does not converge')
            self.io_inv[pad] = {f: r for f, r in inv.items() if f in (self.keep_on_handover or ())}
            self.info['buffer_invariant_' + ('encrypt' if pad else 'decrypt')] = {f.split('::')[-1]: r for f, r in self.io_inv[pad].items()}
        # --- final, reporting runs
        wl, wf, WI, wres, counters = self.run_worker(frozenset(stable_w), own_w, quiet=False)
        self.worker = (wl, wf, WI, wres, counters)
        self.io_runs = {}
        for pad in (True, False):
            self.io_runs[pad] = self.run_io(frozenset(stable_io), own_io, pad, quiet=False)
        # R01.k: relational part of the buffer invariant - what a buffer looks like when it was handed over after a FULL load,
        # and what the I/O role does with such a buffer when it comes back, in every group state it can meet by then
        ctor0 = self.ctor_state()
        keepf = self.keep_on_handover or ()

        def join_shapes(shapes):
            joined = {}
            for sh in shapes:
                for f_, r_ in sh.items():
                    if f_ not in joined:
                        joined[f_] = r_
                    elif joined[f_] is not None and r_ is not None:
                        joined[f_] = (min(joined[f_][0], r_[0]), max(joined[f_][1], r_[1]))
                    else:
                        joined[f_] = None
            return joined
        for pad in (True, False):
            # the buffers that are loaded are fresh ones and ones that came back from a FULL load (no load follows a load that was
            # not FULL: R04.e), so the shape of a FULL hand-over is the least fixpoint over exactly those two kinds
            base = {f_: r_ for f_, r_ in ctor0.items() if f_ in keepf}
            full = None
            for it in range(6):
                inv = join_shapes([base] + ([full] if full else []))
                il_, _, _, _ = self.run_io(frozenset(stable_io), own_io, pad, quiet=True, full_shape=inv, report_k=False)
                new_full = join_shapes(il_.full_shapes) if il_.full_shapes else None
                if new_full == full:
                    break
                full = new_full
            else:
                full = None
            if not full:
                rec.ob('R01.k', 'R01.k@%s::full-chunk-exported-whole' % A.Bq, None, A.B['file'],
                       '%s: the shape of a buffer handed over after a FULL load is not established (no such hand-over, or no fixpoint)' % ('encrypt' if pad else 'decrypt'))
                continue
            self.info['full_buffer_shape_' + ('encrypt' if pad else 'decrypt')] = {f_.split('::')[-1]: r_ for f_, r_ in full.items()}
            n0 = len([o for o in rec.obls if o.rule == 'R01.k'])
            self.run_io(frozenset(stable_io), own_io, pad, quiet=True, full_shape=full)
            rec.count('R01.k exports of full buffers (%s)' % ('encrypt' if pad else 'decrypt'), len([o for o in rec.obls if o.rule == 'R01.k']) - n0, 1)
        # io guarantee used by the worker: READY => now == 0 and total >= 1
        for pad in (True, False):
            il = self.io_runs[pad][0]
            for now, tr, where, trace in il.ready_facts:
                ok = now == C(0) and tr is not None and tr[0] >= 1
                rec.ob('R01.b', 'R01.b@%s::READY-implies-nonempty' % fkey(A.io), ok, where,
                       '%s: token set READY with now=%s total in %s (worker relies on now=0, total>=1)' % (
                           'encrypt' if pad else 'decrypt', show(now), tr),
                       path=[str(x) for x in trace[-8:]])
            rec.count('R01.b-%s' % ('enc' if pad else 'dec'), len(il.ready_facts), 1)
        rec.ob('S-ROLE', 'S-ROLE@%s::file-io-only-in-the-io-role' % A.Gq, not any(o.rule == 'S-ROLE' and o.ok is False for o in rec.obls), A.G['file'],
               'the worker role performs no stream operation; the I/O role performed %d on the analysed paths' % sum(getattr(self.io_runs[p][0], 'fileops', 0) for p in (True, False)))
        rec.count('S-OWN worker accesses', wl.acc, 2)
        rec.count('S-OWN io accesses', sum(self.io_runs[p][0].acc for p in (True, False)), 3)
        rec.count('R03.a cipher-step sites', counters.get('steps', 0), 1)
        rec.count('R03.a entry requests', wf.requests, 1)
        self.info['worker_result_states'] = len(wres)
        self.info['io_result_states'] = {('encrypt' if p else 'decrypt'): len(self.io_runs[p][3]) for p in (True, False)}
        for I_ in [WI] + [self.io_runs[p][2] for p in (True, False)]:
            for what, where in I_.unmodelled:
                rec.broke('unmodelled construct in pipeline analysis: %s at %s' % (what, where))
        # R04.f: no loop in either role has a head state that recurs with every decision closed (read errors included:
        # fread may return 0 with the end-of-file indicator clear, and keeps doing so)
        div = []
        for role, I_ in [('worker', WI)] + [('I/O (%s)' % ('encrypt' if p else 'decrypt'), self.io_runs[p][2]) for p in (True, False)]:
            for where_, path in I_.diverged:
                div.append((role, where_, path))
        for role, where_, path in sorted(set(div)):
            rec.ob('R04.f', 'R04.f@%s::loop-cannot-spin::%s' % (A.Bq, where_.split(':')[0]), False, where_,
                   '%s role: the loop at %s returns to the same state with no decision left open (it never ends on this path)' % (role, where_), path=list(path))
        rec.ob('R04.g', 'R04.g@%s::pipeline-ends-by-returning' % A.Gq, not any(o.rule == 'R04.g' and o.ok is False for o in rec.obls), A.G['file'],
               'neither role ends the process (exit/abort) on a path on which every library call succeeded')
        rec.ob('R04.f', 'R04.f@%s::no-loop-spins' % A.Gq, not div, A.G['file'],
               'no loop of the worker or I/O role (callee loops included) has a recurring head state with all decisions closed; input classes include a failing read: %s' % ('yes' if not div else 'NO'))


def _check_cursor(self):
    """R03.b: summary of the cursor function for cursor < total, == total, > total (symbolic, exhaustive split)."""
    A, rec = self.A, self.rec
    f = A.prog.functions[self.cursor_fn]
    OBJ = ('ext', 'onebuf')
    arr = A.blk
    for rel, mk in (('lt', lambda t, d: L(0, {t: 1, d: -1})), ('eq', lambda t, d: sym(t)), ('gt', lambda t, d: L(0, {t: 1, d: 1}))):
        I = interp.Interp(A.prog, models=dict(models.STD_MODELS))
        I.heap_fields = A.heap_fields
        I.split_fields = split_hook(A)
        st = interp.State()
        st.sym['t'] = (1 << 21, 1 << 22)
        st.sym['d'] = (1, 1 << 20)
        now0 = mk('t', 'd')
        st.mem[(OBJ, (self.cursor,))] = now0
        st.mem[(OBJ, (A.Bq + '::total',))] = sym('t')
        res = I.run(f, st, this=P(OBJ, ()))
        rec.saw(I)
        good = len(res) == 1
        det = []
        for s2, v in res:
            now1 = s2.mem.get((OBJ, (self.cursor,)))
            if rel == 'lt':
                want = P(OBJ, cell_path(A, now0, 0, s2.sym))
                g = v == want and now1 == add(now0, C(1), s2.sym)
            else:
                g = v == NULL and now1 == now0
            others = [k for k in s2.mem if k[0] == OBJ and k[1] not in ((self.cursor,), (A.Bq + '::total',)) and not str(k[1][-1]).startswith('$')]
            g = g and not others
            good = good and g
            det.append('returns %s, cursor %s -> %s' % (show(v), show(now0), show(now1) if now1 else '?'))
        rec.ob('R03.b', 'R03.b@%s::cursor-%s' % (fkey(f), rel), good, '%s:%s' % (f['file'], f['line']),
               'cursor %s total: %s (oracle: %s)' % ({'lt': '<', 'eq': '==', 'gt': '>'}[rel], '; '.join(det),
                                                      'entry at cursor, cursor+1' if rel == 'lt' else 'NULL, nothing written'))


PipelineAnalysis.check_cursor = _check_cursor


def _check_round_robin(self):
    """R02.r: chunks are dealt to the slots in turn: with every slot still in use (no token INV), one call of the function that
    moves the turn takes it from slot t to slot (t+1) mod T and reports success, for every T in 1..16 and every t < T
    (concrete evaluation of the real function on the real controller objects)."""
    A, rec = self.A, self.rec
    prog = A.prog
    turnf = A.Gq + '::turn'
    movers = []
    for m_ in A.G['methods']:
        g = prog.functions.get(m_['id'])
        if g is None or g.get('body') is None or g.get('ctor'):
            continue
        for n in walk(g['body']):
            if ((n['k'] == 'BinaryOperator' and n.get('op') == '=') or n['k'] == 'CompoundAssignOperator' or (n['k'] == 'UnaryOperator' and n.get('op') in ('++', '--'))):
                tgt = strip(n.get('lhs') or n.get('e') or {})
                if tgt.get('k') == 'MemberExpr' and tgt.get('d', '')[2:] == turnf:
                    movers.append(g)
                    break
    movers = [g for g in movers if not g['params']]
    key = 'R02.r@%s::turn-advances-round-robin' % A.Gq
    if len(movers) != 1:
        rec.ob('R02.r', key, None, A.G['file'], 'the function that moves the turn was not identified (%d parameterless candidates)' % len(movers))
        return
    f = movers[0]
    where = '%s:%s' % (f['file'], f['line'])
    E = A.enum
    bad = []
    n = 0
    for T in range(1, 17):
        for t in range(T):
            st = initial_state(A, 'io', True)
            st.sym[TSYM] = (T, T)
            st.mem[(BG, (A.Gq + '::size',))] = C(T)
            st.mem[(BG, (turnf,))] = C(t)
            if A.live:
                st.mem[(A.live, ())] = C(T)
            for i in range(T):
                # (an array of {buffer, controller} pairs is read through the same parallel-array view as everywhere else)
                st.mem[(CTRL, (i, A.state))] = C(E['READY'])
            I = interp.Interp(prog, models=dict(models.STD_MODELS))
            I.heap_fields = A.heap_fields
            I.split_fields = split_hook(A)
            I.concrete_loops = True
            res = I.run(f, st, this=P(BG, ()))
            n += 1
            want = (t + 1) % T
            for s2, v in res:
                got = s2.mem.get((BG, (turnf,)))
                if got != C(want) or not (is_int(v) and compare('!=', v, C(0), s2.sym) is True):
                    bad.append((T, t, show(got) if got else '?', show(v)))
            if not res:
                bad.append((T, t, 'no result', ''))
    rec.ob('R02.r', key, not bad, where,
           '%d (T, turn) pairs: %s' % (n, 'the turn goes to (turn+1) mod T and the function reports success' if not bad else
                                      'NO: with T=%d and turn=%d the turn becomes %s (result %s); expected %d' % (bad[0][0], bad[0][1], bad[0][2], bad[0][3], (bad[0][1] + 1) % bad[0][0])))


PipelineAnalysis.check_round_robin = _check_round_robin


def _ctor_state(self):
    """Field values of a freshly constructed buffer object, from its constructor."""
    A = self.A
    ctors = [f for f in A.prog.functions.values() if f.get('ctor') and f.get('rec') == A.Bq]
    out = {}
    if len(ctors) != 1:
        return out
    I = interp.Interp(A.prog, models=dict(models.STD_MODELS))
    OBJ = ('ext', 'fresh')
    res = I.run(ctors[0], interp.State(), this=P(OBJ, ()))
    for s, _ in res:
        for fld in A.B['fields']:
            v = s.mem.get((OBJ, (fld['d'][2:],)))
            if v is not None and is_int(v):
                r = rng(v, s.sym)
                out[fld['d'][2:]] = r
    return out


PipelineAnalysis.ctor_state = _ctor_state


def _check_unpad(self):
    """R01.f: stripping undoes padding.  The writer's last block of a chunk with load = 16q+t ends in 16-t (R01.a) and the chunk
    holds q+1 blocks (R01.g); the export routine in decrypt mode, given exactly that, writes 16q+t bytes."""
    A, rec = self.A, self.rec
    sumv, bufsz = self.consts()
    exp = [f for f in A.prog.functions.values() if f.get('rec') == A.Bq and any(
        n['k'] == 'CallExpr' and n['callee'].get('q') == 'fwrite' for n in walk(f['body']))]
    if len(exp) != 1:
        raise AnalysisBroken('export routine of %s not found' % A.Bq)
    f = exp[0]
    OBJ = ('ext', 'onebuf')
    arr = A.blk
    sizes = []

    class Lst:
        def on_fwrite(self, I, st, node, root, pos, size, src, fval):
            sizes.append((size, dict(st.sym)))
    I = interp.Interp(A.prog, listeners=[Lst()], models=dict(models.STD_MODELS))
    I.heap_fields = A.heap_fields
    I.split_fields = split_hook(A)
    st = interp.State()
    st.sym['q'] = (0, bufsz - 1)
    st.sym['t'] = (0, 15)
    st.mem[(OBJ, (A.Bq + '::isfinal',))] = C(1)
    st.mem[(OBJ, (A.Bq + '::now',))] = L(1, {'q': 1})
    st.mem[(OBJ, (A.Bq + '::total',))] = L(1, {'q': 1})
    st.mem[(OBJ, (A.Bq + '::tail',))] = C(0)
    st.mem[(OBJ, cell_path(A, sym('q'), 15, st.sym))] = L(16, {'t': -1})
    st.abs = frozenset(k for k in st.mem if any(isinstance(x, tuple) for x in k[1]))
    args = []
    for p in f['params']:
        t = A.prog.type(p['t'])
        args.append(P(('file', 'fout'), ()) if t.get('k') == 'ptr' else C(0))
    res = I.run(f, st, this=P(OBJ, ()), args=args)
    rec.saw(I)
    ok = len(sizes) >= 1 and all(compare('==', sz, L(0, {'q': 16, 't': 1}), sy) is True for sz, sy in sizes)
    rec.ob('R01.f', 'R01.f@%s::unpad-inverts-pad' % fkey(f), ok, '%s:%s' % (f['file'], f['line']),
           'decrypt export of a final chunk of q+1 blocks whose last byte is 16-t writes %s (must be 16q+t, the bytes read by the encrypting side)' % (
               [show(sz) for sz, _ in sizes][:3]))


PipelineAnalysis.check_unpad = _check_unpad


class _Null:
    def ob(self, *a, **k):
        return None

    def count(self, *a, **k):
        pass


class _Only:
    """Recorder view that lets the obligations of the named rules through and drops the rest."""

    def __init__(self, rec, rules):
        self.rec, self.rules = rec, rules

    def ob(self, rule, *a, **k):
        if rule in self.rules:
            return self.rec.ob(rule, *a, **k)
        return None

    def count(self, *a, **k):
        pass

    def saw(self, *a, **k):
        return self.rec.saw(*a, **k)

    def broke(self, *a, **k):
        pass


class ChunkRules:
    """R01.a PAD, R01.c END-OF-BODY TABLE, R01.d UNPAD, R03.e SAME STORAGE, R04.e/R04.c; io role listener."""

    def __init__(self, A, rec, ispadding, sumv, bufsz):
        self.A, self.rec, self.pad, self.sumv, self.bufsz = A, rec, ispadding, sumv, bufsz
        self.loads = 0
        self.exports = 0
        self.fread_dst = set()
        self.fwrite_src = set()
        self.mode = 'encrypt' if ispadding else 'decrypt'

    def fn_named(self, I, part):
        for fr in reversed(I.frames):
            if fr.fn.get('rec') == self.A.Bq:
                return fr
        return None

    def on_fread(self, I, st, node, root, pos, size, dst, got):
        if dst is not None and dst[0] == 'p':
            self.fread_dst.add((dst[1], tuple(x if not isinstance(x, tuple) else 'i' for x in dst[2][1:])))
            st.mem[AUXGOT] = got

    def on_memset(self, I, st, node, dst, val, size):
        fr = self.fn_named(I, 'load')
        if fr is None or not self.pad or dst[0] != 'p' or dst[1] != BUFS:
            return
        # PKCS#7: p = 16 - (load & 15) in [1,16], written at block load>>4, offset tail, length p, value p, tail + p = 16
        got = st.mem.get(AUXGOT)
        path = dst[2]
        flat = self.A.flat
        blk, off = (None, path[-1]) if flat else (path[-2], path[-1])
        ok = False
        detail = 'memset(%s, %s, %s) after reading %s bytes' % (show(dst), show(val), show(size), show(got) if got else '?')
        if got is not None and is_int(got) and got != TOP:
            t = binop('&', got, C(15), st.sym)
            q = binop('>>', got, C(4), st.sym)
            p = add(C(16), t, st.sym, -1)
            offv = C(off) if isinstance(off, int) else off
            eq = lambda x, y: is_int(x) and is_int(y) and compare('==', x, y, st.sym) is True
            rp = rng(p, st.sym)
            if flat:
                # one byte array: the padding starts at byte `load` and ends with the unit
                r = rng(offv, st.sym) if is_int(offv) else None
                ok = (eq(val, p) and eq(size, p) and eq(offv, got) and rp is not None and 1 <= rp[0] and rp[1] <= 16
                      and r is not None and 0 <= r[0] and r[1] + 16 <= self.sumv + 15 and r[1] < self.sumv)
            else:
                blkv = C(blk) if isinstance(blk, int) else blk
                r = rng(blkv, st.sym) if is_int(blkv) else None
                ok = (eq(val, p) and eq(size, p) and eq(offv, t) and eq(blkv, q) and rp is not None and 1 <= rp[0] and rp[1] <= 16
                      and r is not None and 0 <= r[0] and r[1] < self.bufsz)
            detail += '; PKCS#7 expects value=len=%s at block %s offset %s, block index in [0,%d)' % (show(p), show(q), show(t), self.bufsz)
        self.rec.ob('R01.a', 'R01.a@%s::pad-write' % fkey(fr.fn), ok, nloc(node), detail)

    def on_fwrite(self, I, st, node, root, pos, size, src, fval):
        fr = self.fn_named(I, 'export')
        if src[0] == 'p':
            self.fwrite_src.add((src[1], tuple(x if not isinstance(x, tuple) else 'i' for x in src[2][1:])))
        if fr is None:
            return
        self.exports += 1
        this = st.mem.get(fr.this)
        idx = this[2][0] if this and this[0] == 'p' and this[2] else None
        st.comps[('exported', idx)] = True
        now = I.load(st, (BUFS, (idx, self.A.Bq + '::now')))
        total = I.load(st, (BUFS, (idx, self.A.Bq + '::total')))
        r = rng(size, st.sym)
        rn = rng(now, st.sym)
        # R01.d / R11.c: bytes written lie within what the buffer holds: 0 <= size <= 16*BUF_SZ, and for the final
        # chunk 0 <= size <= 16*now
        cap = self.sumv
        ok = r is not None and r[0] >= 0 and r[1] <= cap
        self.rec.ob('R01.d', 'R01.d@%s::export-size-within-buffer' % fkey(fr.fn), ok, nloc(node),
                    '%s: fwrite of %s bytes (range %s) from a buffer of %d bytes' % (self.mode, show(size), r, cap),
                    path=[str(x) for x in st.trace[-6:]])
        # R01.h: a final chunk is exported as 16*now bytes minus the stripped padding; a non-final one as the whole buffer
        isf = I.load(st, (BUFS, (idx, self.A.Bq + '::isfinal')))
        if self.pad and is_int(now) and now != TOP and is_int(size) and size != TOP:
            full = compare('==', size, C(self.sumv), st.sym) is True
            fin = compare('==', size, binop('*', now, C(16), st.sym), st.sym) is True
            self.rec.ob('R01.h', 'R01.h@%s::export-size-encrypt' % fkey(fr.fn), full or fin, nloc(node),
                        'encrypt: exported %s bytes with now = %s blocks (whole chunk or 16*now)' % (show(size), show(now)))
        okroot = root == 'fout'
        self.rec.ob('R03.e', 'R03.e@%s::export-to-output' % fkey(fr.fn), okroot, nloc(node), 'chunk exported to stream %s' % (root,))
        if st.comps.get(('matfull', idx)):
            whole = is_int(size) and size != TOP and compare('==', size, C(self.sumv), st.sym) is True
            self.rec.ob('R01.k', 'R01.k@%s::full-chunk-exported-whole' % fkey(fr.fn), whole, nloc(node),
                        '%s: a buffer that was handed to its worker after a load that returned FULL comes back and is exported as %s bytes '
                        '(must be the whole chunk, %d, whatever the state of the group by then)' % (self.mode, show(size), self.sumv),
                        path=[str(x) for x in st.trace[-8:]])

    def on_prestore(self, I, st, loc, val, node):
        # R04.e: READY only after a non-NODATA load in this turn; INV otherwise
        if loc is None or not loc[1] or loc[1][-1] != self.A.state:
            return
        fn = I.frames[-1].fn if I.frames else None
        if fn is not None and fn.get('ctor'):
            return
        ns = setof(val)
        E = self.A.enum
        # R03.f: a buffer whose token may be UPDATING holds processed blocks that nobody has written out yet: the I/O role
        # changes that token only after exporting that buffer in the same turn (otherwise the chunk is dropped)
        idx_ = loc[1][0] if len(loc[1]) >= 2 else None
        pre_ = I.load(st, loc)
        ps_ = setof(pre_) if pre_ is not None and pre_ != TOP else None
        may_upd = ps_ is None or E['UPDATING'] in ps_
        if may_upd and idx_ is not None:
            done_ = bool(st.comps.get(('exported', idx_)))
            self.rec.ob('R03.f', 'R03.f@%s::processed-buffer-exported-before-reuse' % fkey(fn if fn else self.A.io), done_, nloc(node),
                        '%s: the token of slot %s is overwritten while it may be UPDATING (processed blocks waiting to be written out) %s' % (
                            self.mode, show(C(idx_) if isinstance(idx_, int) else idx_), 'after the buffer was exported in this turn' if done_ else 'WITHOUT exporting the buffer first: the chunk is dropped'),
                        path=[str(x) for x in st.trace[-8:]])
        st.comps.pop(('exported', idx_), None)
        last = st.comps.pop('lastload', None)
        st.comps['handclass'] = last
        if ns is not None and ns == {E['READY']}:
            ok = last is not None and last <= {'FULL', 'FINAL'}
            why = 'token set READY after load result %s' % (sorted(last) if last else 'none (no load in this turn)')
        elif ns is not None and ns == {E['INV']}:
            ok = last is None or last <= {'NODATA'}
            why = 'token set INV after load result %s' % (sorted(last) if last else 'none')
        else:
            return
        self.rec.ob('R04.e', 'R04.e@%s::token-follows-load-result' % fkey(self.A.io), ok, nloc(node), '%s: %s' % (self.mode, why),
                    path=[str(x) for x in st.trace[-8:]])

    def on_preload(self, I, st, loc, node):
        # b[now-1] with now == 0: index underflow
        if loc is None or loc[0] != BUFS:
            return
        for x in loc[1]:
            if isinstance(x, tuple) and is_int(x):
                r = rng(x, st.sym)
                if r is not None and (r[0] < 0 or r[1] > (1 << 31)):
                    fr = self.fn_named(I, '')
                    self.rec.ob('R01.d', 'R01.d@%s::index-underflow' % (fkey(fr.fn) if fr else '?'), False, nloc(node),
                                '%s: buffer indexed with %s in %s (underflow when no block was consumed)' % (self.mode, show(x), r))

    def on_ret(self, I, st, node, q, callee, this, args, val, fr):
        f = I.prog.functions.get(callee.get('m'))
        if f is None or f.get('rec') != self.A.Bq or not is_int(val):
            return
        rt = I.prog.type(f['ret'])
        if rt.get('k') != 'enum':
            return
        # R04.e: after the first load that is not FULL no further load may happen
        nmx = {v: k for k, v in I.prog.enums[rt['enum']]['consts'].items()}
        hv = setof(val)
        was_ended = st.comps.get('ended', False)
        self.rec.ob('R04.e', 'R04.e@%s::no-load-after-end' % fkey(fr.fn if fr.fn else f), not was_ended, nloc(node),
                    'chunk load %s the input was reported exhausted' % ('after' if was_ended else 'before'))
        if hv is None or hv != {I.prog.enums[rt['enum']]['consts']['FULL']}:
            st.comps['ended'] = True
        st.comps['lastload'] = frozenset(nmx.get(x, str(x)) for x in hv) if hv is not None else frozenset(['?'])
        # R01.c end-of-body table
        self.loads += 1
        en = I.prog.enums[rt['enum']]['consts']
        last = st.comps.get(('lastread', 'fin'))
        rem = st.comps.get(('frem', 'fin'))
        got = st.mem.get(AUXGOT)
        if last is None:
            return
        if self.pad:
            want = 'FINAL' if last != 'r=sum' and last != 'r>sum' else 'FULL'
        else:
            blocks = binop('>>', got, C(4), st.sym) if got is not None and is_int(got) and got != TOP else TOP
            nb = compare('==', blocks, C(0), st.sym) if blocks != TOP else None
            if nb is None:
                self.rec.ob('R01.c', 'R01.c@%s::end-of-body-%s' % (fkey(f), self.mode), None, nloc(node),
                            'cannot decide whether a complete block was read (got %s)' % (show(got) if got else '?'))
                return
            if nb:
                want = 'NODATA'         # no complete 16-byte block was read
            elif rem == 'zero':
                want = 'FINAL'
            else:
                want = 'FULL'
        have = setof(val)
        ok = have == {en[want]}
        nm = {v: k for k, v in en.items()}
        self.rec.ob('R01.c', 'R01.c@%s::end-of-body-%s-%s' % (fkey(f), self.mode, want), ok, nloc(node),
                    '%s, remaining-length class %s (after read: %s): load state %s, oracle %s' % (
                        self.mode, last, rem, '{' + ','.join(nm.get(x, str(x)) for x in sorted(have or [])) + '}', want),
                    path=[str(x) for x in st.trace[-6:]])
        # R01.g: the block count is exactly what was read (plus the pad block when encrypting the last chunk)
        if this is not None and this[0] == 'p' and got is not None and is_int(got) and got != TOP and have is not None and en['NODATA'] not in have:
            idx = this[2][0]
            total = I.load(st, (BUFS, (idx, self.A.Bq + '::total')))
            blocks = binop('>>', got, C(4), st.sym)
            wantt = add(blocks, C(1), st.sym) if (self.pad and have == {en['FINAL']}) else blocks
            okt = is_int(total) and total != TOP and compare('==', total, wantt, st.sym) is True
            self.rec.ob('R01.g', 'R01.g@%s::block-count-%s' % (fkey(f), self.mode), okt, nloc(node),
                        '%s, class %s: total = %s, bytes read %s (expected %s blocks)' % (self.mode, last, show(total), show(got), show(wantt)))
        # R01.b inside the buffer: not NODATA => total >= 1 and now == 0
        if this is not None and this[0] == 'p':
            idx = this[2][0]
            now = I.load(st, (BUFS, (idx, self.A.Bq + '::now')))
            total = I.load(st, (BUFS, (idx, self.A.Bq + '::total')))
            tr = rng(total, st.sym)
            if have is not None and en['NODATA'] not in have:
                ok2 = now == C(0) and tr is not None and tr[0] >= 1 and tr[1] <= self.bufsz
                self.rec.ob('R01.b', 'R01.b@%s::loaded-nonempty-%s' % (fkey(f), self.mode), ok2, nloc(node),
                            '%s, class %s: returns %s with now=%s total in %s (need now=0, 1<=total<=%d)' % (
                                self.mode, last, nm.get(next(iter(have))), show(now), tr, self.bufsz))
