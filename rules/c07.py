"""C07 SHA-1, MD5 and SHA-256 digests are the standard ones for every message."""
from . import hash_rules
LEVEL = 'proof'
RULES = ('R07.a', 'R07.b', 'R07.d', 'R07.e', 'R07.f', 'R07.g', 'R07.s', 'R07.t', 'R11.f')


def run(prog, rec, tier):
    H = hash_rules.HashRules(prog, rec)
    H.tables()
    H.finaliser()
    H.finaliser_bounds()
    H.output()
    H.drivers()
    H.buffer()
    H.buffer_sim(tier)
    from . import term_rules
    term_rules.hash_compress(prog, rec, tier)
    # digest(m) is a function of m alone only if hasher and buffer objects carry no state shared between objects:
    # every mutable object with static storage in the hash units must be write-only (R15.d use classification)
    from . import static_rules
    before = list(rec.obls)
    static_rules.run_statics(prog, rec)
    new = [o for o in rec.obls if o not in before]
    mine = [o for o in new if str(o.where).startswith('kernel/hash/')]
    rec.obls = before + mine
    rec.instances.pop('R15.d mutable statics', None)
    rec.ob('R07.s', 'R07.s@kernel/hash::objects-share-no-state', all(o.ok is not False for o in mine), 'kernel/hash',
           'mutable objects with static storage declared in the hash units: %d%s' % (len(mine), '' if all(o.ok is not False for o in mine) else ' - read by hashing code: two hasher/buffer objects alive at once influence each other'))
    rec.extra['explanation'] = (
        'digest(m) = output(fold compress over pad(m)) is decided piecewise. (1) Tier 2: each one-block compress function, interpreted over '
        'hash-consed 32-bit word terms (AC sums mod 2^32, rotations, truth-table nodes for bitwise functions) with free chaining words and 64 '
        'free message bytes, yields chaining-word terms identical to those of FIPS 180-4 6.1.2 / 6.2.2 and RFC 1321 3.4 written from the text '
        '(self-tested against hashlib); it adds exactly 512 to the bit counter. (2) The finaliser for every final-block size 0..63 and a symbolic '
        'block count produces msg || 0x80 || 0* || 64-bit length (byte-of-linear-form terms: covers counter width and double counting) and stays '
        'inside its block buffer. (3) The string driver: base (state before the loop from the code), inductive step (loop-carried locals advance by '
        'learnt constant steps; iteration k compresses the block at 64k) and exit step (r bytes at 64k to the finaliser, then the result) for '
        'symbolic k, r; plus 256 concrete lengths. (4) The file driver unit sequence. (5) The 64-byte-unit file buffer: per-call inductive '
        'invariant for the real unit count and exhaustive simulation of the object for a reduced unit count. (6) Initial words, K table, digest byte order.')
    rec.extra['checker_cmd'] = './check C07'
    rec.extra['trusted_base'] = ['clang 14 front end', 'wfacts extractor', 'wai interpreter and word/byte term canonicalisers',
                                 'spec/sha.py (FIPS 180-4, RFC 1321; self-test against hashlib)', 'stdio model of fread']
    rec.assume('the file buffer code is parametric in its unit-count constant (R07.g uses 2 units); message length < 2^61 bytes')
    rec.assume('little-endian target')
