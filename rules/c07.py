"""C07 SHA-1, MD5 and SHA-256 digests are the standard ones for every message (tier 1; compress functions: tier 2)."""
from . import hash_rules
LEVEL = 'other'


def run(prog, rec, tier):
    H = hash_rules.HashRules(prog, rec)
    for part in ('tables', 'finaliser', 'output', 'drivers', 'buffer', 'buffer_sim'):
        getattr(H, part)()
    try:
        from . import term_rules
        term_rules.hash_compress(prog, rec, tier)
    except ImportError:
        rec.extra['tier2'] = 'not built'
    rec.extra['explanation'] = ('Initial chaining words and SHA-256 K from first principles; finaliser evaluated for all 64 final-block sizes with a '
                                'symbolic block count: padded message = msg || 0x80 || 0* || 64-bit length in the right byte order (covers the '
                                'length accounting and the counter width); digest byte order; string driver for 0..3 blocks x 64 residues plus the '
                                'inductive step of its block loop; file driver unit sequence; the 64-byte-unit file buffer by an inductive invariant '
                                '(constructor, prefix block, full unit, partial unit once, refill over five fill classes).')
    rec.assume('the file buffer keeps its representation (now/total/tail/has_extra); otherwise the buffer rule reports analysis-broken')
