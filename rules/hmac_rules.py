"""HMAC rules: S-CMP comparison completeness on the tag compare, R06.a key flow and R08.a RFC 2104 structure of the
tag computation.  The tag computation is interpreted with named byte symbols for the key; the hash drivers are
summarised (C07 owns them) but receive their buffers by content."""
from wai import interp, models
from wai.facts import AnalysisBroken, walk, strip, loc as nloc
from wai.values import *


def fkey(fn):
    return '%s::%s' % (fn['file'], fn['q'])


KEYO = ('ext', 'key')
HM = ('ext', 'hmac')
OUTB = ('ext', 'stored')
FP = ('file', 'f')


def find_hmac(prog):
    recs = [r for r in prog.records.values() if any(m['n'] == 'cmphmac' for m in r['methods'])]
    cands = []
    for r in prog.records.values():
        ms = [prog.functions[m['id']] for m in r['methods'] if m['id'] in prog.functions]
        # the class whose methods call both a file-hash and a string-hash driver and compare bytes
        calls = set()
        for f in ms:
            for n in walk(f['body']):
                if n['k'] == 'CXXMemberCallExpr':
                    calls.add(n['callee'].get('q'))
        if 'Hashmaster::getFileHash' in calls and 'Hashmaster::getStringHash' in calls:
            cands.append(r)
    if len(cands) != 1:
        raise AnalysisBroken('expected one class computing a keyed two-pass hash, found %d' % len(cands))
    return cands[0]


class HmacRules:
    def __init__(self, prog, rec):
        self.prog, self.rec = prog, rec
        self.H = find_hmac(prog)
        self.Hq = self.H['q']
        fns = {m['n']: prog.functions[m['id']] for m in self.H['methods'] if m['id'] in prog.functions}
        # core: the private method that calls the hash drivers; compare: the method returning bool that calls core
        self.core = None
        for f in fns.values():
            if any(n['k'] == 'CXXMemberCallExpr' and n['callee'].get('q') == 'Hashmaster::getFileHash' for n in walk(f['body'])):
                self.core = f
        if self.core is None:
            raise AnalysisBroken('tag computation core not found')
        self.cmp = [f for f in fns.values() if prog.type(f['ret']).get('k') == 'bool'
                    and any(n['k'] == 'CXXMemberCallExpr' and n['callee'].get('m') == self.core['id'] for n in walk(f['body']))]
        if len(self.cmp) != 1:
            raise AnalysisBroken('expected one boolean tag-compare method calling the core, found %d' % len(self.cmp))
        self.cmp = self.cmp[0]
        from wai.facts import const_getters
        hb = next((r['q'] for r in prog.records.values() if any(m['n'] == 'gethlen' for m in r['methods']) and not prog.all_bases(r['q'])), None)
        self.hashers = const_getters(prog, hb, ('gethlen', 'getblen')) if hb else {}
        self.ipad = prog.globals.get(self.Hq + '::ipad', {}).get('value')
        self.opad = prog.globals.get(self.Hq + '::opad', {}).get('value')

    def field(self, name):
        for f in self.H['fields']:
            if f['n'] == name:
                return f['d'][2:]
        return None

    # ---------------------------------------------------------------- S-CMP
    def scmp(self):
        prog, rec = self.prog, self.rec
        f = self.cmp
        where = '%s:%s' % (f['file'], f['line'])
        lens = sorted({h['gethlen'] for h in self.hashers.values() if 'gethlen' in h})
        res_f, len_f, res_is_array = None, None, False
        # the result buffer and the length are the members of the class that the compare function reads: a byte pointer the core
        # sets (or a byte array member the core fills), and a byte-sized count
        read = set()
        for n in walk(f['body']):
            if n['k'] == 'MemberExpr' and n.get('rec') == self.Hq:
                read.add(n['d'][2:])
        for d in sorted(read):
            t = prog.type(next(x['t'] for x in self.H['fields'] if x['d'][2:] == d))
            if t.get('k') == 'ptr' and prog.type(t['to']).get('bits') == 8:
                res_f = d
            elif t.get('k') == 'array' and prog.type(t.get('el')).get('bits') == 8:
                res_f, res_is_array = d, True
            elif t.get('k') == 'int' and t.get('bits') == 8:
                len_f = d
        if res_f is None or len_f is None:
            raise AnalysisBroken('result / length members of the tag computation not identified (compare reads: %s)' % sorted(read))
        RES = ('ext', 'computed')
        total = 0
        for L in lens:
            reads = {'o': set(), 'r': set(), 'cast': False}

            class Lst:
                def on_load(self, I, st, loc, val, node):
                    if loc is None:
                        return
                    if res_is_array and loc[0] == HM and len(loc[1]) >= 2 and loc[1][-2] == res_f:
                        loc = (RES, (loc[1][-1],))
                    for nm, obj in (('o', OUTB), ('r', RES)):
                        if loc[0] == obj and loc[1]:
                            x = loc[1][-1]
                            if isinstance(x, int):
                                st.comps['rd' + nm] = st.comps.get('rd' + nm, frozenset()) | {x}
                            elif isinstance(x, tuple) and x and x[0] == '$cast':
                                st.comps['cast'] = True
                                if isinstance(x[2], int):
                                    st.comps['rd' + nm] = st.comps.get('rd' + nm, frozenset()) | set(range(x[1] * x[2], x[1] * x[2] + x[1]))

            def core_model(I, st, fr, n, this, args, an):
                if not res_is_array:
                    st.mem[(HM, (res_f,))] = P(RES, (0,))
                st.mem[(HM, (len_f,))] = C(L)
                for i in range(L + 8):
                    st.sym['r%d' % i] = (0, 255)
                    st.mem[(HM, (res_f, i)) if res_is_array else (RES, (i,))] = sym('r%d' % i)
                return [(st, ('void',))]

            def m_memcmp(I, st, fr, n, this, args, an):
                a, b, cnt = args
                out = []
                if a[0] == 'p' and b[0] == 'p' and cnt[0] == 'c' and cnt[1] <= 64:
                    s0 = st.copy()
                    eq = s0.comps.get('eq', frozenset())
                    for i in range(cnt[1]):
                        la = (a[1], a[2][:-1] + (a[2][-1] + i,))
                        lb = (b[1], b[2][:-1] + (b[2][-1] + i,))
                        va, vb = I.load(s0, la), I.load(s0, lb)
                        I.emit('load', s0, loc=la, val=va, node=n)
                        I.emit('load', s0, loc=lb, val=vb, node=n)
                        pa_, pb_ = pure_byte_sym(va, s0.sym), pure_byte_sym(vb, s0.sym)
                        if pa_ and pb_:
                            eq = eq | {tuple(sorted((pa_, pb_)))}
                    s0.comps['eq'] = eq
                    s1 = st.copy()
                    s1.sym['$memcmp'] = (1, 255)
                    return [(s0, C(0)), (s1, sym('$memcmp'))]
                return [(st, TOP)]

            mdl = dict(models.STD_MODELS)
            mdl[self.core['q']] = core_model
            mdl['memcmp'] = m_memcmp
            mdl['std::memcmp'] = m_memcmp
            I = interp.Interp(prog, listeners=[Lst()], models=mdl)
            I.concrete_loops = True
            st = interp.State()
            for i in range(L + 8):
                st.sym['o%d' % i] = (0, 255)
                st.mem[(OUTB, (i,))] = sym('o%d' % i)
            args = []
            for p in f['params']:
                t = prog.type(p['t'])
                if t.get('k') == 'ptr' and prog.type(t['to']).get('const') and prog.type(t['to']).get('bits') == 8 and 'hmac' in p['n']:
                    args.append(P(OUTB, (0,)))
                elif p['n'] == 'key':
                    args.append(P(KEYO, (0,)))
                elif p['n'] == 'fp':
                    args.append(P(FP, ()))
                else:
                    args.append(TOP)
            res = I.run(f, st, this=P(HM, ()), args=args)
            rec.saw(I)
            ntrue = 0
            for s, v in res:
                tv = truth(v, s.sym) if is_int(v) else None
                if tv is False:
                    continue
                ntrue += 1
                total += 1
                eq = s.comps.get('eq', frozenset())
                missing = [i for i in range(L) if tuple(sorted(('o%d' % i, 'r%d' % i))) not in eq]
                rdo, rdr = s.comps.get('rdo', frozenset()), s.comps.get('rdr', frozenset())
                unread = [i for i in range(L) if i not in rdo or i not in rdr]
                if not missing:
                    ok, why = True, 'every one of the %d tag bytes was established equal' % L
                elif unread:
                    ok, why = False, 'tag bytes %s are never even read on an accepting path' % unread[:8]
                elif s.comps.get('cast'):
                    ok, why = None, 'accepting path compares through reinterpreted words; byte equality not derivable'
                else:
                    ok, why = False, 'accepting path does not establish equality of tag bytes %s' % missing[:8]
                rec.ob('S-CMP', 'S-CMP@%s::accept-implies-all-bytes-equal' % fkey(f), ok, where,
                       'digest length %d: %s%s' % (L, why, '' if tv is True else ' (return value %s)' % show(v)), path=[str(x) for x in s.trace[-5:]])
            # equal tags must be accepted: run with identical symbols
            st2 = interp.State()
            for i in range(L + 8):
                st2.sym['r%d' % i] = (0, 255)
                st2.mem[(OUTB, (i,))] = sym('r%d' % i)
            I2 = interp.Interp(prog, models=mdl)
            I2.concrete_loops = True
            res2 = I2.run(f, st2, this=P(HM, ()), args=args)
            okacc = len(res2) >= 1 and all(truth(v, s.sym) is True for s, v in res2)
            rec.ob('S-CMP', 'S-CMP@%s::equal-tags-accepted' % fkey(f), okacc, where, 'digest length %d: identical tags are %s' % (L, 'accepted' if okacc else 'NOT always accepted'))
            rec.ob('S-CMP', 'S-CMP@%s::some-accepting-path' % fkey(f), ntrue >= 1, where, 'digest length %d: %d accepting abstract path(s)' % (L, ntrue))
            for what, wh in I.unmodelled:
                rec.broke('unmodelled construct in tag compare: %s at %s' % (what, wh))
        rec.count('S-CMP accepting paths', total, len(lens))

    # ---------------------------------------------------------------- R06.a / R08.a
    def structure(self):
        prog, rec = self.prog, self.rec
        f = self.core
        where = '%s:%s' % (f['file'], f['line'])
        if self.ipad != 0x36 or self.opad != 0x5c:
            rec.ob('R08.a', 'R08.a@%s::pad-constants' % self.Hq, False, self.H['file'], 'ipad=%s opad=%s (RFC 2104: 0x36 / 0x5c)' % (self.ipad, self.opad))
        else:
            rec.ob('R08.a', 'R08.a@%s::pad-constants' % self.Hq, True, self.H['file'], 'ipad=0x36 opad=0x5c')
        ncases = 0
        for ht in (0, 1, 2):
            cap = {}

            def m_fb(I, st, fr, n, this, args, an):
                blk = args[2] if len(args) > 2 else NULL
                content = None
                if blk[0] == 'p' and blk[2] and isinstance(blk[2][-1], int):
                    content = [I.load(st, (blk[1], blk[2][:-1] + (blk[2][-1] + i,))) for i in range(64)]
                cap['prefix'] = content
                cap['fp'] = args[0]
                cap['fpos'] = models.fpos(st, models.fileroot(args[0]))
                st.comps['hb'] = this[1] if this and this[0] == 'p' else None
                return [(st, ('void',))]

            def m_fh(I, st, fr, n, this, args, an):
                cap['fh_this'] = st.mem.get((this[1], this[2] + ('$dyn',))) if this and this[0] == 'p' else None
                cap['fh_buf_ok'] = args[0][0] == 'p' and args[0][1] == st.comps.get('hb')
                cap['fh_out'] = args[1]
                if args[1][0] == 'p':
                    o = args[1]
                    for i in range(40):
                        st.sym['in%d' % i] = (0, 255)
                        st.mem[(o[1], o[2][:-1] + (o[2][-1] + i,))] = sym('in%d' % i)
                return [(st, ('void',))]

            def m_sh(I, st, fr, n, this, args, an):
                src, ln, outp = args
                cap['sh_this'] = st.mem.get((this[1], this[2] + ('$dyn',))) if this and this[0] == 'p' else None
                cap['sh_len'] = ln
                cap['sh_out'] = outp
                cap['sh_out_count'] = st.mem.get((outp[1], ('$count',))) if outp[0] == 'p' else None
                if cap['sh_out_count'] is None and outp[0] == 'p' and len(outp[2]) >= 2 and isinstance(outp[2][-2], str) and isinstance(outp[2][-1], int):
                    # a member array of known extent: room from the addressed element to its end
                    for r_ in prog.records.values():
                        for x_ in r_['fields']:
                            if x_['d'][2:] == outp[2][-2]:
                                t_ = prog.type(x_['t']) or {}
                                if t_.get('k') == 'array' and t_.get('n'):
                                    cap['sh_out_count'] = C(t_['n'] - outp[2][-1])
                if src[0] == 'p' and ln[0] == 'c' and src[2] and isinstance(src[2][-1], int):
                    cap['outer'] = [I.load(st, (src[1], src[2][:-1] + (src[2][-1] + i,))) for i in range(ln[1])]
                return [(st, ('void',))]

            mdl = dict(models.STD_MODELS)
            mdl['filebuffer64::filebuffer64'] = m_fb
            mdl['Hashmaster::getFileHash'] = m_fh
            mdl['Hashmaster::getStringHash'] = m_sh
            I = interp.Interp(prog, models=mdl)
            I.concrete_loops = True
            st = interp.State()
            for i in range(16):
                st.sym['k%d' % i] = (0, 255)
                st.mem[(KEYO, (i,))] = sym('k%d' % i)
            models.set_fpos(st, 'f', sym('p0'))
            st.sym['p0'] = (0, 1 << 40)
            args = []
            for p in f['params']:
                if p['n'] == 'hashtype':
                    args.append(C(ht))
                elif p['n'] == 'key':
                    args.append(P(KEYO, (0,)))
                elif p['n'] == 'fp':
                    args.append(P(FP, ()))
                else:
                    args.append(TOP)
            st.mem[(HM, (self.field('res_printer') or 'x',))] = P(('ext', 'printer'), ())
            res = I.run(f, st, this=P(HM, ()), args=args)
            rec.saw(I)
            ncases += 1
            dyn = cap.get('fh_this')
            hrec = dyn[1] if dyn else None
            B = self.hashers.get(hrec, {}).get('getblen')
            L = self.hashers.get(hrec, {}).get('gethlen')
            okp = cap.get('prefix') is not None and B == 64 and all(
                cap['prefix'][i] == (('xk', 'k%d' % i, 0x36) if i < 16 else C(0x36)) for i in range(64))
            rec.ob('R06.a', 'R06.a@%s::inner-prefix-is-key-xor-ipad' % fkey(f), okp, where,
                   'hash mode %d (%s): inner hash input starts with K0^ipad, K0 = the 16 key bytes zero-padded to the block (%s)' % (
                       ht, hrec, 'yes' if okp else 'NO: ' + ' '.join(show(x) for x in (cap.get('prefix') or [])[:18])))
            okstream = cap.get('fp') == P(FP, ()) and cap.get('fpos') == sym('p0') and cap.get('fh_buf_ok')
            rec.ob('R08.a', 'R08.a@%s::inner-covers-stream-from-position' % fkey(f), bool(okstream), where,
                   'hash mode %d: inner hash consumes the given stream from its current position (no seek, no cap) through the buffer built with the prefix' % ht)
            outer = cap.get('outer')
            oko = outer is not None and L is not None and cap.get('sh_len') == C(64 + L) and len(outer) == 64 + L and all(
                outer[i] == (('xk', 'k%d' % i, 0x5c) if i < 16 else C(0x5c)) for i in range(64)) and all(
                outer[64 + j] == sym('in%d' % j) for j in range(L))
            rec.ob('R08.a', 'R08.a@%s::outer-is-key-xor-opad-then-inner-digest' % fkey(f), oko, where,
                   'hash mode %d: outer hash input = (K0^opad) || inner digest[0..%s), length %s (%s)' % (
                       ht, L, show(cap['sh_len']) if cap.get('sh_len') else '?', 'yes' if oko else 'NO'))
            same = cap.get('sh_this') == cap.get('fh_this') and dyn is not None
            rec.ob('R08.a', 'R08.a@%s::same-hasher-both-passes' % fkey(f), same, where, 'hash mode %d: inner and outer pass use %s / %s' % (ht, cap.get('fh_this'), cap.get('sh_this')))
            # result buffer and length members describe the outer digest
            for s, v in res:
                ln = [x for k, x in s.mem.items() if k[0] == HM and k[1] and k[1][-1] == self.field('length')]
                okl = ln and ln[0] == C(L)
                rec.ob('R08.a', 'R08.a@%s::length-member-is-digest-length' % fkey(f), bool(okl), where, 'hash mode %d: tag length member = %s (digest %s)' % (ht, show(ln[0]) if ln else '?', L))
            for what, wh in I.unmodelled:
                rec.broke('unmodelled construct in tag computation: %s at %s' % (what, wh))
            # R11.h: the same engine object used again, with any hash mode: the buffer the outer digest is written to holds that digest
            for ht2 in (0, 1, 2):
                for s, v in res:
                    s2 = s.copy()
                    models.set_fpos(s2, 'f', sym('p0'))
                    cap.clear()
                    args2 = [C(ht2) if a_ == C(ht) and p_['n'] == 'hashtype' else a_ for a_, p_ in zip(args, f['params'])]
                    I.run(f, s2, this=P(HM, ()), args=args2)
                    dyn2 = cap.get('fh_this')
                    L2 = self.hashers.get(dyn2[1] if dyn2 else None, {}).get('gethlen')
                    cnt = cap.get('sh_out_count')
                    okc = None
                    if cnt is not None and L2 is not None and is_int(cnt):
                        okc = compare('>=', cnt, C(L2), s2.sym)
                    rec.ob('R11.h', 'R11.h@%s::digest-buffer-holds-the-digest-on-reuse' % fkey(f), okc, where,
                           'hash mode %d after hash mode %d on one engine object: the outer digest (%s bytes) is written into %s, an allocation of %s byte(s)' % (
                               ht2, ht, L2, show(cap.get('sh_out')) if cap.get('sh_out') else '?', show(cnt) if cnt is not None else 'unknown size'))
        rec.count('R08.a hash modes', ncases, 3)
