"""C16 Base64 codec is RFC 4648 and the key validator accepts exactly 16-byte keys."""
from . import b64_rules
LEVEL = 'other'
RULES = ('R16.t', 'R16.c', 'R16.u', 'R16.a', 'R16.b', 'R16.d', 'R16.v', 'R16.e', 'R16.l', 'R16.g')


def run(prog, rec, tier):
    B = b64_rules.B64Rules(prog, rec)
    B.tables()
    B.locale_fixed()
    B.encoder()
    B.validator_decoder()
    B.decoder()
    from . import cli_rules
    cli_rules.CliRules(prog, rec).interactive_key()
    rec.extra['explanation'] = (
        'Alphabet and decode table from RFC 4648; the encoder interpreted for input lengths 0..19 over symbolic bytes: every output position '
        'is alphabet[the right 6-bit field of the 24-bit group] (bit-field terms), "=" padding and the NUL terminator in place; the exact '
        'accept set of the key validator for length 24 by exhaustive exploration of character-class shapes with prefix pruning (class '
        'uniformity of the code checked on the AST); over every accepted shape the decoder writes at most 16 bytes, within the 16-byte key '
        'buffers of both call sites, with in-range decode-table indices; validator is applied to the whole string at its call sites. '
        'Decoder-inverts-encoder for arbitrary lengths is not decided beyond these clauses.')
    rec.assume('C locale for isalnum')
