"""C15: inventory of process-wide mutable state with one obligation per object; new mutable statics must not carry
information between operations."""
from wai.facts import AnalysisBroken, walk, strip, loc as nloc

# frozen inventory (confirmed by reading): name -> how a later operation is protected from the earlier one
INVENTORY = {
    'bufferctrl::live_num': 'zero at the end of every pipeline run (R04.c) and tied to INV (R04.d); checked at operation exit (R15.b)',
    'buffergroup::instance': 'released on every path of every operation (R15.a)',
    'buffergroup::mtx': 'a mutex; held only inside get_instance/del_instance',
    'default_settings': 'never written after static initialisation (checked here)',
    'fout': 'cleared at the start of every parse (R15.c)',
    'ctype': 'name table, never written (checked here)',
    'htype': 'name table, never written (checked here)',
    'description': 'help text, never written (checked here)',
}
NEVER_WRITTEN = ('default_settings', 'ctype', 'htype', 'description')


def uses_of(prog, gname):
    """(function, node, parent chain) for every reference to the global / static local."""
    out = []
    for f in prog.functions.values():
        stack = [(f['body'], [])]
        while stack:
            n, par = stack.pop()
            if isinstance(n, dict):
                if n.get('k') in ('DeclRefExpr', 'MemberExpr') and (n.get('d') == 'G:' + gname or n.get('q') == gname and n.get('mk') == 'Var' or n.get('d') == gname):
                    out.append((f, n, par))
                for k, v in n.items():
                    if not k.startswith('_') and isinstance(v, (dict, list)):
                        stack.append((v, par + [n] if 'k' in n else par))
            elif isinstance(n, list):
                for x in n:
                    stack.append((x, par))
    return out


def classify(n, par):
    """'write' (plain store), 'self' (++/--/op= whose value is not used), 'read' (anything else)."""
    cur = n
    for p in reversed(par):
        k = p.get('k')
        if k in ('ImplicitCastExpr', 'ParenExpr', 'MaterializeTemporaryExpr', 'ExprWithCleanups') and p.get('ck') != 'LValueToRValue':
            cur = p
            continue
        if k == 'BinaryOperator' and p.get('op') == '=' and p.get('lhs') is cur:
            return 'write'
        if k == 'CompoundAssignOperator' and p.get('lhs') is cur:
            return 'self'
        if k == 'UnaryOperator' and p.get('op') in ('++', '--'):
            return 'self'
        break
    return 'read'


def run_statics(prog, rec):
    n = 0
    for q, g in sorted(prog.globals.items()):
        if g.get('const'):
            continue
        t = prog.type(g['t'])
        if t.get('const'):
            continue
        n += 1
        where = '%s:%s' % (g['file'], g['line'])
        name = q.split('@')[0].replace('SL:', '')
        key = q if not q.startswith('SL:') else 'static-local ' + name
        ident = g['id'] if q.startswith('SL:') else q
        us = uses_of(prog, ident)
        if q in NEVER_WRITTEN:
            writes = []
            for f, node, par in us:
                c = classify(node, par)
                if c in ('write', 'self'):
                    writes.append(nloc(node))
                # a non-const member call on the object is a write as well
                if par and par[-1].get('k') == 'MemberExpr' and len(par) > 1 and par[-2].get('k') == 'CXXMemberCallExpr':
                    m = prog.functions.get(par[-2]['callee'].get('m'))
                    if m is not None and not m.get('constm') and not m.get('static'):
                        writes.append(nloc(node))
            rec.ob('R15.d', 'R15.d@%s::never-written' % q, not writes, where, 'process-wide object %s is %s' % (q, 'never modified after initialisation' if not writes else 'MODIFIED at %s' % writes[:3]))
            continue
        if q in INVENTORY:
            rec.ob('R15.d', 'R15.d@%s::inventoried' % q, True, where, 'process-wide object %s: %s' % (q, INVENTORY[q]))
            continue
        # not in the inventory: may exist only if operations never read it (pure counter / write-only)
        reads = [(f, node) for f, node, par in us if classify(node, par) == 'read']
        rec.ob('R15.d', 'R15.d@%s::new-process-wide-state' % key, not reads, where,
               'mutable object with static storage %s (%s) is %s' % (
                   q, t.get('s'), 'never read by an operation (write-only / self-updating counter)' if not reads else
                   'read at %s: its value survives from one operation to the next' % [nloc(x) for _, x in reads[:3]]))
    rec.count('R15.d mutable statics', n, 3)


def scoped_statics(prog, rec, rule, key, dirs, what):
    """The R15.d use classification restricted to the units under `dirs`, reported as `rule`: a mutable object with static storage
    declared there (a static local included) that the code reads couples objects / operations / threads that share nothing else."""
    before = list(rec.obls)
    saved = dict(rec.instances)
    run_statics(prog, rec)
    new = [o for o in rec.obls if o not in before]
    mine = [o for o in new if str(o.where).startswith(tuple(dirs))]
    rec.obls = before
    rec.instances = saved
    bad = [o for o in mine if o.ok is False]
    for o in bad:
        rec.ob(rule, '%s::%s' % (key, o.key.split('@')[-1]), False, o.where, o.detail)
    rec.ob(rule, key, not bad, dirs[0],
           'mutable objects with static storage declared under %s: %d%s' % (
               ', '.join(dirs), len(mine), '' if not bad else ' - read by %s: objects that share nothing else influence each other' % what))


STREAM_FUNCS = {'fgetc': 0, 'getc': 0, 'fputc': 1, 'putc': 1, 'ungetc': 1, 'fread': 3, 'fwrite': 3, 'fseek': 0, 'ftell': 0, 'rewind': 0,
                'fgets': 2, 'fputs': 1, 'fscanf': 0, 'fprintf': 0, 'feof': None, 'ferror': None}


def _effects(n):
    """Targets whose state the evaluation of expression n changes: ('stream', decl) for stdio calls that move a stream,
    ('var', decl) for assignments / ++ / --, ('call', q) for calls of non-const member functions on a named object."""
    out = set()
    for x in walk(n):
        k = x.get('k')
        if k == 'CallExpr':
            q = (x.get('callee') or {}).get('q')
            if q in STREAM_FUNCS and STREAM_FUNCS[q] is not None and len(x.get('args', [])) > STREAM_FUNCS[q]:
                a = strip(x['args'][STREAM_FUNCS[q]])
                d = a.get('d') or (a.get('k') == 'MemberExpr' and a.get('d'))
                if d:
                    out.add(('stream', d))
        elif k in ('UnaryOperator',) and x.get('op') in ('++', '--'):
            e = strip(x.get('e') or {})
            if e.get('d'):
                out.add(('var', e['d']))
        elif (k == 'BinaryOperator' and x.get('op') == '=') or k == 'CompoundAssignOperator':
            e = strip(x.get('lhs') or {})
            if e.get('d'):
                out.add(('var', e['d']))
    return out


def unsequenced(prog, rec, rule, key, dirs):
    """Two arguments of one call, or the two operands of an arithmetic / bitwise / comparison operator, whose evaluations both
    change the same stream or variable: the language does not say which happens first, so the result differs between compilers."""
    bad = []
    nsites = 0
    for f in prog.functions.values():
        if f.get('body') is None or not str(f.get('file', '')).startswith(tuple(dirs)):
            continue
        for n in walk(f['body']):
            k = n.get('k')
            parts = None
            if k in ('CallExpr', 'CXXMemberCallExpr', 'CXXConstructExpr') and len(n.get('args') or []) >= 2:
                parts = n['args']
            elif k == 'BinaryOperator' and n.get('op') not in ('&&', '||', ',', '=') and n.get('lhs') is not None:
                parts = [n['lhs'], n['rhs']]
            if not parts:
                continue
            effs = [_effects(p) for p in parts]
            if sum(1 for e in effs if e) >= 2:
                nsites += 1
                for i in range(len(effs)):
                    for j in range(i + 1, len(effs)):
                        both = effs[i] & effs[j]
                        if both:
                            bad.append((nloc(n), f['q'], sorted(both)))
    for wh, fn, both in bad:
        rec.ob(rule, '%s::%s' % (key, fn), False, wh,
               'two operands / arguments evaluated in unspecified order both change %s: which value goes where depends on the compiler' % (both,))
    rec.ob(rule, key, not bad, dirs[0], 'no call or operator in %s has two operands whose evaluations change the same stream or variable (%d site(s) with effects on both sides examined)' % (', '.join(dirs), nsites))


PURE_EXTERNALS = {'strlen', 'memcmp', 'strcmp', 'strncmp', 'isalnum', 'isalpha', 'isdigit', 'abs', 'std::min', 'std::max', 'feof', 'ferror',
                  '__builtin_expect', 'std::basic_string::size', 'std::basic_string::length', 'std::basic_string::empty', 'std::basic_string::c_str'}


PURE_STD_METHODS = {'size', 'length', 'empty', 'c_str', 'data', 'begin', 'end', 'cbegin', 'cend', 'front', 'back', 'at', 'operator[]', 'get',
                    'joinable', 'count', 'find', 'capacity', 'max_size', 'operator bool', 'operator==', 'operator!=', 'operator<', 'compare'}


def pure_external(q):
    q = q or ''
    return q in PURE_EXTERNALS or (q.startswith('std::') and q.split('::')[-1] in PURE_STD_METHODS) or q in ('isupper', 'islower', 'isspace', 'toupper', 'tolower', 'labs', 'strchr', 'strstr', 'memchr')


def has_effects(prog, fn, memo=None, depth=0):
    """Does calling fn change anything but its own locals (stores through members / globals / pointers, waits, locks, I/O,
    allocation), directly or through what it calls?  Unknown callees count as effects."""
    memo = {} if memo is None else memo
    if fn['id'] in memo:
        return memo[fn['id']]
    memo[fn['id']] = False      # recursion guard
    res = False
    if fn.get('body') is None or depth > 8:
        res = True
    else:
        for x in walk(fn['body']):
            k = x.get('k')
            if k in ('CXXNewExpr', 'CXXDeleteExpr', 'CXXThrowExpr'):
                res = True
            elif (k == 'BinaryOperator' and x.get('op') == '=') or k == 'CompoundAssignOperator' or (k == 'UnaryOperator' and x.get('op') in ('++', '--')):
                tgt = strip(x.get('lhs') or x.get('e') or {})
                if not (tgt.get('k') == 'DeclRefExpr' and str(tgt.get('d', '')).startswith('L:')):
                    res = True
            elif k in ('CallExpr', 'CXXMemberCallExpr', 'CXXOperatorCallExpr', 'CXXConstructExpr'):
                cal = x.get('callee') or {}
                g = prog.functions.get(cal.get('m')) if cal.get('m') else None
                if g is not None and g.get('body') is not None:
                    if has_effects(prog, g, memo, depth + 1):
                        res = True
                elif pure_external(cal.get('q')) or (k == 'CXXConstructExpr' and not cal.get('q')):
                    pass
                else:
                    res = True
            if res:
                break
    memo[fn['id']] = res
    return res


def assert_conditions(prog, rec, rule, key, dirs):
    """The condition of an assert() is evaluated in debug builds only (NDEBUG removes it): if it has an effect - a wait, a store, a
    call that changes state - the release build behaves differently from the code as written (and as analysed here, with asserts on)."""
    bad, n = [], 0
    memo = {}
    for f in prog.functions.values():
        if f.get('body') is None or not str(f.get('file', '')).startswith(tuple(dirs)):
            continue
        for x in walk(f['body']):
            if x.get('k') != 'ConditionalOperator':
                continue
            arms = [x.get('then'), x.get('else')]
            if not any(y.get('k') == 'CallExpr' and (y.get('callee') or {}).get('q') in ('__assert_fail', '__assert', '__assert_rtn', '_wassert')
                       for a in arms if a for y in walk(a)):
                continue
            n += 1
            why = None
            for y in walk(x.get('cond')):
                k = y.get('k')
                if (k == 'BinaryOperator' and y.get('op') == '=') or k == 'CompoundAssignOperator' or (k == 'UnaryOperator' and y.get('op') in ('++', '--')):
                    why = 'an assignment'
                elif k in ('CallExpr', 'CXXMemberCallExpr', 'CXXOperatorCallExpr'):
                    cal = y.get('callee') or {}
                    g = prog.functions.get(cal.get('m')) if cal.get('m') else None
                    if g is not None:
                        if has_effects(prog, g, memo):
                            why = 'a call of %s, which changes state (waits, stores or calls something that does)' % g['q']
                    elif not pure_external(cal.get('q')):
                        why = 'a call of %s' % cal.get('q')
                if why:
                    break
            if why:
                bad.append((nloc(x), f['q'], why))
    for wh, fn, why in bad:
        rec.ob(rule, '%s::%s' % (key, fn), False, wh, 'the condition of this assert contains %s: with NDEBUG (the release build) it is not evaluated at all' % why)
    rec.ob(rule, key, not bad, dirs[0], '%d assert condition(s) in %s, none with an effect that a release build would lose' % (n, ', '.join(dirs)))
