"""C15: inventory of process-wide mutable state with one obligation per object; new mutable statics must not carry
information between operations."""
from wai.facts import AnalysisBroken, walk, strip, loc as nloc

# frozen inventory (confirmed by reading): name -> how a later operation is protected from the earlier one
INVENTORY = {
    'bufferctrl::live_num': 'zero at the end of every pipeline run (R04.c) and tied to INV (R04.d); checked at operation exit (R15.b)',
    'buffergroup::instance': 'released on every path of every operation (R15.a)',
    'buffergroup::mtx': 'a mutex; held only inside get_instance/del_instance',
    'default_settings': 'never written after static initialisation (checked here)',
    'fout': 'cleared at the start of every parse (R15.c)',
    'ctype': 'name table, never written (checked here)',
    'htype': 'name table, never written (checked here)',
    'description': 'help text, never written (checked here)',
}
NEVER_WRITTEN = ('default_settings', 'ctype', 'htype', 'description')


def uses_of(prog, gname):
    """(function, node, parent chain) for every reference to the global / static local."""
    out = []
    for f in prog.functions.values():
        stack = [(f['body'], [])]
        while stack:
            n, par = stack.pop()
            if isinstance(n, dict):
                if n.get('k') in ('DeclRefExpr', 'MemberExpr') and (n.get('d') == 'G:' + gname or n.get('q') == gname and n.get('mk') == 'Var' or n.get('d') == gname):
                    out.append((f, n, par))
                for k, v in n.items():
                    if not k.startswith('_') and isinstance(v, (dict, list)):
                        stack.append((v, par + [n] if 'k' in n else par))
            elif isinstance(n, list):
                for x in n:
                    stack.append((x, par))
    return out


def classify(n, par):
    """'write' (plain store), 'self' (++/--/op= whose value is not used), 'read' (anything else)."""
    cur = n
    for p in reversed(par):
        k = p.get('k')
        if k in ('ImplicitCastExpr', 'ParenExpr', 'MaterializeTemporaryExpr', 'ExprWithCleanups') and p.get('ck') != 'LValueToRValue':
            cur = p
            continue
        if k == 'BinaryOperator' and p.get('op') == '=' and p.get('lhs') is cur:
            return 'write'
        if k == 'CompoundAssignOperator' and p.get('lhs') is cur:
            return 'self'
        if k == 'UnaryOperator' and p.get('op') in ('++', '--'):
            return 'self'
        break
    return 'read'


def run_statics(prog, rec):
    n = 0
    for q, g in sorted(prog.globals.items()):
        if g.get('const'):
            continue
        t = prog.type(g['t'])
        if t.get('const'):
            continue
        n += 1
        where = '%s:%s' % (g['file'], g['line'])
        name = q.split('@')[0].replace('SL:', '')
        key = q if not q.startswith('SL:') else 'static-local ' + name
        ident = g['id'] if q.startswith('SL:') else q
        us = uses_of(prog, ident)
        if q in NEVER_WRITTEN:
            writes = []
            for f, node, par in us:
                c = classify(node, par)
                if c in ('write', 'self'):
                    writes.append(nloc(node))
                # a non-const member call on the object is a write as well
                if par and par[-1].get('k') == 'MemberExpr' and len(par) > 1 and par[-2].get('k') == 'CXXMemberCallExpr':
                    m = prog.functions.get(par[-2]['callee'].get('m'))
                    if m is not None and not m.get('constm') and not m.get('static'):
                        writes.append(nloc(node))
            rec.ob('R15.d', 'R15.d@%s::never-written' % q, not writes, where, 'process-wide object %s is %s' % (q, 'never modified after initialisation' if not writes else 'MODIFIED at %s' % writes[:3]))
            continue
        if q in INVENTORY:
            rec.ob('R15.d', 'R15.d@%s::inventoried' % q, True, where, 'process-wide object %s: %s' % (q, INVENTORY[q]))
            continue
        # not in the inventory: may exist only if operations never read it (pure counter / write-only)
        reads = [(f, node) for f, node, par in us if classify(node, par) == 'read']
        rec.ob('R15.d', 'R15.d@%s::new-process-wide-state' % key, not reads, where,
               'mutable object with static storage %s (%s) is %s' % (
                   q, t.get('s'), 'never read by an operation (write-only / self-updating counter)' if not reads else
                   'read at %s: its value survives from one operation to the next' % [nloc(x) for _, x in reads[:3]]))
    rec.count('R15.d mutable statics', n, 6)
