"""C05 A modified encrypted file never decrypts successfully to different plaintext."""
from .common import combined
LEVEL = 'other'
RULES = ('R05.a', 'R05.d', 'S-GATE', 'S-CMP', 'R05.e', 'R12.a', 'R08.b', 'R07.e', 'R07.d', 'R07.g', 'R07.t', 'R06.a', 'R06.c', 'R08.r', 'R08.f', 'R01.u')


def run(prog, rec, tier):
    from . import static_rules as _sr
    _sr.unsequenced(prog, rec, 'R01.u', 'R01.u@kernel::evaluation-order', ('kernel', 'main.cpp', 'valget'))
    combined(prog, rec, tier, RULES, driver=('reader',), hmac=('scmp', 'structure'), hash=('drivers', 'buffer', 'buffer_sim', 'finaliser', 'factory'), compress=True,
             explanation='Every file-derived scalar that steers processing after the verification gate must come from the hashed range '
             '[48,EOF) or be pinned to a constant (provenance by named file-offset symbols); accepted paths hash the input from 48 to '
             'EOF; output effects are control-dependent on verify()==0; tag compare establishes equality of every digest byte. '
             'Unforgeability of HMAC is assumed, not decided.')
    rec.assume('HMAC is a MAC: a different message or key gives a different tag')
